package main

// C06d (sub-check of C06): the single-section legacy layouts 0.5.10 / 0.5.11 at
// message level. coq/props/C06d.v proves that the loader's conversion
// (before000512InnerPrefixTobitstr + before000512FixLeafSize, Legacy510.conv510_msg)
// of the message an 0.5.10 / 0.5.11 release wrote for a trie (Legacy510.encode_0510)
// is today's message of that trie (Bits.encode_trie) up to the two select indexes
// the loader does not touch, and that those are irrelevant for every read.
//
// This file ties the two Coq functions to the code. For generated key sets (the
// C06 generators) in each of the six b0510-*/b0511-* layout variants, with several
// fixed-width encoders, and for the archived 0.5.10 fixtures with small key sets:
//   OLD  the stream (reference writer c06WriteSlim; fixtures: the archived file
//        itself) is parsed with golang/protobuf into the 0.5.10 message type
//        WITHOUT any conversion; every field is printed (l3DumpMsg format + the
//        since-removed fields 12/13/15)            = extracted encode_0510
//   NEW  the stream is loaded by the real (*SlimTrie).Unmarshal; every field of the
//        instance's message (hook VerifInner) is printed
//                                                  = extracted load510 (encode_0510 ..)
//   CUR  every field of today's builder's message for the same keys / values /
//        options                                   = extracted encode_trie
//   q    GetID / Get / searchID / Search / RangeGet of the loaded trie on the keys
//        and mutated queries = extracted Msg.mgetid / mget / msearchid / msearch /
//        mrangeget run on the model's CONVERTED message.
// Oracle: the sorted-list oracle of C06 on every loaded trie (exact on absent
// keys too for the full-prefix variants); additionally, written from the property
// text only: the loaded message must equal today's message in every field except
// the two SelectIndex arrays (counted, reported in the evidence).

import (
	"bytes"
	"fmt"
	"strings"

	"github.com/openacid/low/pbcmpl"
	"github.com/openacid/slim/trie"
)

// c06dSlim0510 is the 0.5.10 message for PARSING (the writer's c06Slim0510 carries an
// untagged version field that protobuf's unmarshaller rejects): today's trie.Slim plus the
// fields 12, 13 and 15 removed in 0.5.12.
type c06dSlim0510 struct {
	BigInnerCnt      int32           `protobuf:"varint,11,opt,name=BigInnerCnt,proto3"`
	BigInnerOffset   int32           `protobuf:"varint,12,opt,name=BigInnerOffset,proto3"`
	ShortMinusInner  int32           `protobuf:"varint,13,opt,name=ShortMinusInner,proto3"`
	ShortSize        int32           `protobuf:"varint,14,opt,name=ShortSize,proto3"`
	ShortMask        uint64          `protobuf:"varint,15,opt,name=ShortMask,proto3"`
	NodeTypeBM       *trie.Bitmap    `protobuf:"bytes,20,opt,name=NodeTypeBM,proto3"`
	Inners           *trie.Bitmap    `protobuf:"bytes,30,opt,name=Inners,proto3"`
	ShortBM          *trie.Bitmap    `protobuf:"bytes,31,opt,name=ShortBM,proto3"`
	ShortTable       []uint32        `protobuf:"varint,32,rep,packed,name=ShortTable,proto3"`
	InnerPrefixes    *trie.VLenArray `protobuf:"bytes,38,opt,name=InnerPrefixes,proto3"`
	LeafPrefixes     *trie.VLenArray `protobuf:"bytes,58,opt,name=LeafPrefixes,proto3"`
	Leaves           *trie.VLenArray `protobuf:"bytes,60,opt,name=Leaves,proto3"`
	XXX_unrecognized []byte          `json:"-"`
}

func (m *c06dSlim0510) Reset()         { *m = c06dSlim0510{} }
func (m *c06dSlim0510) String() string { return "c06dSlim0510" }
func (*c06dSlim0510) ProtoMessage()    {}

// c06dParseOld parses the single section of an 0.5.10/0.5.11 stream into the
// 0.5.10 message type; nothing is converted.
func c06dParseOld(buf []byte) (m *c06dSlim0510, ver string, err error) {
	defer func() {
		if r := recover(); r != nil {
			err = fmt.Errorf("parse panic: %v", r)
		}
	}()
	m = &c06dSlim0510{}
	rd := bytes.NewReader(buf)
	_, ver, err = pbcmpl.Unmarshal(rd, m)
	if err == nil && rd.Len() != 0 {
		err = fmt.Errorf("%d trailing bytes", rd.Len())
	}
	return
}

func c06dOldAsSlim(m *c06dSlim0510) *trie.Slim {
	return &trie.Slim{BigInnerCnt: m.BigInnerCnt, ShortSize: m.ShortSize, NodeTypeBM: m.NodeTypeBM, Inners: m.Inners,
		ShortBM: m.ShortBM, ShortTable: m.ShortTable, InnerPrefixes: m.InnerPrefixes, LeafPrefixes: m.LeafPrefixes, Leaves: m.Leaves}
}

// c06dDumpNoSel returns the dump of ns with the two select indexes blanked: the
// fields in which a loaded 0.5.10 message may differ from today's.
func c06dDumpNoSel(ns *trie.Slim) string {
	lines := strings.Split(l3DumpMsgStr(ns), "\n")
	for i, ln := range lines {
		if strings.HasPrefix(ln, "BM innerpfx.position ") || strings.HasPrefix(ln, "BM leafpfx.position ") {
			if k := strings.Index(ln, " S "); k >= 0 {
				lines[i] = ln[:k]
			}
		}
	}
	return strings.Join(lines, "\n")
}

type c06dStats struct {
	compared, fixtures, writerErr                     int
	newEqCurExceptSel, newNeCur, selDiffers, newEqCur int
	firstDiff                                         interface{}
}

func c06dQueryLine(st *trie.SlimTrie, spec *EncSpec, q string) string {
	s, p := protect(func() string {
		v, f := st.Get(q)
		l, e, r := st.VerifSearchID(q)
		lv, ev, rv := st.Search(q)
		gv, gf := st.RangeGet(q)
		return fmt.Sprintf("%d %s S %d %d %d V %s %s %s R %s", st.GetID(q), foundStr(spec, v, f), l, e, r,
			ovStr(spec, lv), ovStr(spec, ev), ovStr(spec, rv), foundStr(spec, gv, gf))
	})
	if p != "" {
		s = "PANIC"
	}
	return fmt.Sprintf("q %s G %s", hxs(q), s)
}

func init() {
	register("C06d", func(c *Ctx) {
		c.Or.Rule = "key sets: one PRNG stream from VERIF_SEED; fixed sets (empty, single, empty key, keys that are prefixes of keys, half-byte prefixes, more than 32 and more than 64 stored prefixes, long shared prefixes, key counts 63/64/65/127/128/129/64k) + the shared kinds (" +
			strings.Join(kindNames, "/") + ") + the C06 kinds (" + strings.Join(c06KindNames, "/") + "); values = fixed-width numbers with encoder I32/U32/I16/I64/I8 (round robin); every set is written in each of the 6 single-section layout variants (b0510-*/b0511-* x nopref/innpref/allpref) by the reference writer, parsed unconverted, and loaded by the real Unmarshal; " +
			"archived 0.5.10 fixtures with at most 2000 keys are parsed and loaded as they are; a case = (variant, encoder, keys, values); non-trivial = at least 2 keys; distinct = distinct (variant, encoder, keys, values)"
		layouts := []*c06Layout{}
		for _, l := range c06Layouts {
			if l.Slim {
				layouts = append(layouts, l)
			}
		}
		type gen struct {
			kind string
			keys []string
		}
		x := func(n int) string { return strings.Repeat("x", n) }
		// n groups "<2 decimal-ish bytes><shared run>" x 2 keys: n stored inner prefixes (+ the root's)
		manyPrefixes := func(n int) []string {
			ks := []string{}
			for i := 0; i < n; i++ {
				pre := fmt.Sprintf("%c%c", 'A'+i/26, 'a'+i%26)
				run := strings.Repeat("r", 1+i%3)
				ks = append(ks, pre+run+"0", pre+run+"1"+x(i%2))
			}
			return uniqSorted(ks)
		}
		sets := []gen{
			{"empty", []string{}}, {"single", []string{""}}, {"single", []string{"\xff"}}, {"single", []string{"abc"}},
			{"emptykey-root", []string{"", "\x00", "\x00\x00", "a"}},
			{"prefix-keys", []string{"a", "ab", "abc", "abd", "b"}},
			{"prefix-keys", []string{"abc", "abcd", "abcdx", "abcdy", "abcdz", "abd", "abde", "bc", "bcd", "bcde", "cde"}},
			{"halfbyte-prefix", []string{"\xff\xf0", "\xff\xf1"}}, {"halfbyte-prefix", []string{"a\xff\xf0b", "a\xff\xffc", "b"}},
			{"longruns", []string{x(200) + "a", x(200) + "b", x(200) + "b" + strings.Repeat("\xff", 129)}},
			{"many-prefixes(>32 elements: second select-index entry)", manyPrefixes(40)},
			{"many-prefixes(position bitmap > 64 bits)", manyPrefixes(70)},
			{"many-prefixes(position bitmap > 128 bits, 3 select-index entries)", manyPrefixes(100)},
		}
		// key counts around the multiples of 64: leaf and node counts that fill their bitmap words exactly
		{
			r := c.R.Fork()
			for _, n := range []int{63, 64, 65, 127, 128, 129, 64 * (3 + r.Intn(5))} {
				ks := make([]string, n)
				for i := range ks {
					ks[i] = fmt.Sprintf("%04d", i*3)
				}
				sets = append(sets, gen{"count-mod-64", ks})
			}
		}
		nsets := c.N(70, 900)
		for i := 0; len(sets) < nsets; i++ {
			r := c.R.Fork()
			if i%3 == 2 {
				k := r.Intn(c06KindCnt)
				sets = append(sets, gen{c06KindNames[k], c06GenKeys(r, k, false)})
			} else {
				k := r.Intn(KKindCnt)
				sets = append(sets, gen{kindNames[k], genKeySet(r, k, 1)})
			}
		}
		stats := &c06dStats{}
		reported := map[string]bool{}
		encNames := []string{"I32", "U32", "I16", "I64", "I8"}

		// one case: buf is the stream, keys/ids/encoder the index it encodes
		emit := func(id string, l *c06Layout, encName string, keys []string, ids []uint64, buf []byte, queries []string) {
			spec := specByName(encName)
			typed, vals := spec.Make(ids)
			esize := spec.Enc.GetEncodedSize(nil)
			inner, leaf := 0, 0
			if l.InnerPref {
				inner = 1
			}
			if l.LeafPref {
				leaf = 1
			}
			cw := c.Cases()
			fmt.Fprintf(cw, "T %s %d %d %d\n", id, inner, leaf, esize)
			for i, k := range keys {
				fmt.Fprintf(cw, "K %s %s\n", hxs(k), hx(vals[i]))
			}
			fmt.Fprintf(cw, "E\n")
			w := c.Impl()
			fmt.Fprintf(w, "C %s\n", id)

			// OLD: the stream as parsed, unconverted
			old, ver, err := c06dParseOld(buf)
			if err != nil {
				fmt.Fprintf(w, "PARSE %v\n", err)
				return
			}
			if ver != l.Header {
				fmt.Fprintf(w, "HEADER %s\n", ver)
			}
			if len(old.XXX_unrecognized) != 0 {
				fmt.Fprintf(w, "UNKNOWN-FIELDS %s\n", hx(old.XXX_unrecognized))
			}
			fmt.Fprintf(w, "B ok\nOLD\n")
			w.WriteString(l3DumpMsgStr(c06dOldAsSlim(old)))
			fmt.Fprintf(w, "X %d %d %d\n", old.BigInnerOffset, old.ShortMinusInner, old.ShortMask)

			// NEW: the really loaded instance
			st, err := c06Load(buf, spec.Enc)
			if err != nil {
				kind := "load-error"
				if strings.HasPrefix(err.Error(), "PANIC") {
					kind = "load-panic"
				}
				fmt.Fprintf(w, "NEW %s\n", kind)
				if !reported[kind+l.Name] {
					reported[kind+l.Name] = true
					c.Or.Violate("C06:"+kind+"@"+l.Name, fmt.Sprintf("C06: Unmarshal of a %s stream failed: %v", l.Name, err),
						map[string]interface{}{"property": "C06", "variant": l.Name, "encoder": encName, "keys_hex": c06HexKeys(keys), "stream_hex": hx(buf)})
				}
				return
			}
			fmt.Fprintf(w, "NEW ok\n")
			loaded := st.VerifInner()
			w.WriteString(l3DumpMsgStr(loaded))

			// CUR: today's builder on the same index
			var fresh *trie.SlimTrie
			protect(func() string {
				fresh, _ = trie.NewSlimTrie(spec.Enc, keys, typed, trie.Opt{DedupValue: trie.Bool(false), InnerPrefix: trie.Bool(l.InnerPref), LeafPrefix: trie.Bool(l.LeafPref)})
				return ""
			})
			fmt.Fprintf(w, "CUR\n")
			if fresh == nil {
				fmt.Fprintf(w, "ENC none\n")
			} else {
				cur := fresh.VerifInner()
				w.WriteString(l3DumpMsgStr(cur))
				// the property-level relation, model-free
				a, b := l3DumpMsgStr(loaded), l3DumpMsgStr(cur)
				switch {
				case a == b:
					stats.newEqCur++
					stats.newEqCurExceptSel++
				case c06dDumpNoSel(loaded) == c06dDumpNoSel(cur):
					stats.newEqCurExceptSel++
					stats.selDiffers++
				default:
					stats.newNeCur++
					if stats.firstDiff == nil {
						stats.firstDiff = map[string]interface{}{"variant": l.Name, "encoder": encName, "keys_hex": c06HexKeys(keys), "loaded": a, "current": b}
					}
				}
			}

			// queries on the loaded trie
			for _, q := range queries {
				fmt.Fprintf(cw, "MQ %s\n", hxs(q))
				fmt.Fprintf(w, "%s\n", c06dQueryLine(st, spec, q))
			}
			c.Or.Add("message-level queries on loaded tries", len(queries))

			complete := l.InnerPref && l.LeafPref
			if fd := c06Oracle(st, spec, keys, vals, complete, queries, nil, 10); fd != nil && !reported[fd.key+l.Name] {
				reported[fd.key+l.Name] = true
				c.Or.Violate(fd.key+"@"+l.Name, fd.what+" (layout "+l.Name+")",
					map[string]interface{}{"property": "C06", "variant": l.Name, "encoder": encName, "keys_hex": c06HexKeys(keys), "query_hex": hxs(fd.q), "got": fd.got, "want": fd.want})
			}
			stats.compared++
		}

		for si, g := range sets {
			if len(g.keys) > 600 {
				g.keys = g.keys[:600]
			}
			r := c.R.Fork()
			ids := c06ValueIDs(r, len(g.keys))
			encName := encNames[si%len(encNames)]
			spec := specByName(encName)
			typed, vals := spec.Make(ids)
			queries := genQueries(r, g.keys, len(g.keys)+12)
			if len(queries) > 40 {
				// all keys are checked by the oracle; the model comparison takes a sample
				qs := queries[:0:0]
				for i, q := range queries {
					if i%(len(queries)/40+1) == 0 || i >= len(g.keys) {
						qs = append(qs, q)
					}
				}
				if len(qs) > 60 {
					qs = qs[:60]
				}
				queries = qs
			}
			c.Or.Count("kind:" + g.kind)
			c.Or.Count("keys:" + bucket(len(g.keys)))
			c.Or.Count("enc:" + encName)
			for li, l := range layouts {
				c.Or.Case(fmt.Sprint(l.Name, encName, g.keys, ids), len(g.keys) >= 2)
				c.Or.Count("variant:" + l.Name)
				if si < 3 && li == si {
					c.Or.Sample(map[string]interface{}{"variant": l.Name, "kind": g.kind, "encoder": encName, "keys_hex": c06HexKeys(g.keys)})
				}
				buf, err := c06Write(l, spec.Enc, g.keys, vals, typed)
				if err != nil {
					// the builder refuses the keys with these options (a step beyond 16 bits without stored prefixes)
					stats.writerErr++
					c.Or.Count("outside-writer-domain(" + buildErrStr(err, g.keys) + ")")
					continue
				}
				if st, err := c06Load(buf, spec.Enc); err == nil {
					ns := st.VerifInner()
					if ns.InnerPrefixes != nil && ns.InnerPrefixes.PositionBM != nil {
						if n := len(ns.InnerPrefixes.PositionBM.SelectIndex); n > 1 {
							c.Or.Count("cases-with>1-select-index-entries(innerprefix)")
						}
						if len(ns.InnerPrefixes.Bytes) > 0 {
							c.Or.Count("cases-with-converted-inner-prefixes")
						}
					}
					if ns.LeafPrefixes != nil && ns.LeafPrefixes.PositionBM != nil && len(ns.LeafPrefixes.PositionBM.SelectIndex) > 1 {
						c.Or.Count("cases-with>1-select-index-entries(leafprefix)")
					}
					if ns.BigInnerCnt > 0 {
						c.Or.Count("cases-with-big-nodes")
					}
					if ns.ShortSize > 0 {
						c.Or.Count("cases-with-short-nodes")
					}
				}
				emit(fmt.Sprintf("g%d.%s.%s", si, l.Name, encName), l, encName, g.keys, ids, buf, queries)
			}
		}

		// archived fixtures: the files themselves
		fx, _, err := c06LoadFixtures(c.Repo)
		if err != nil {
			panic(err)
		}
		maxKeys := 2000 // the extracted model keeps node ids as unary nat
		for _, f := range fx {
			if !f.Layout.Slim {
				continue
			}
			keys := c06Keys(f.Set)
			if len(keys) > maxKeys {
				c.Or.Count("fixture-skipped(too many keys for the extracted model)")
				continue
			}
			ids := make([]uint64, len(keys))
			for i := range ids {
				ids[i] = uint64(i)
			}
			c.Or.Case("fixture "+f.File, len(keys) >= 2)
			c.Or.Count("fixture:" + f.Layout.Name)
			r := c.R.Fork()
			qs := genQueries(r, keys, len(keys)+12)
			if len(qs) > 40 {
				qs = append(qs[:20:20], qs[len(qs)-20:]...)
			}
			emit("fx."+f.File, f.Layout, "I32", keys, ids, f.Buf, qs)
			stats.fixtures++
		}

		c.Or.Extra["cases_compared"] = stats.compared
		c.Or.Extra["archived_fixtures_compared"] = stats.fixtures
		c.Or.Extra["key_sets_refused_by_the_builder(no stream)"] = stats.writerErr
		c.Or.Extra["loaded_vs_current_message(model-free)"] = map[string]interface{}{
			"identical_in_every_field":                                 stats.newEqCur,
			"identical_except_the_two_SelectIndex_arrays":              stats.newEqCurExceptSel,
			"of_which_SelectIndex_differs(bit position vs word index)": stats.selDiffers,
			"different_in_another_field":                               stats.newNeCur,
			"first_difference":                                         stats.firstDiff,
		}
		if stats.newNeCur > 0 && len(c.Or.Violations) == 0 {
			// not a violation of C06 as stated (answers are what the property speaks about; the oracle
			// found none), but the theorem's premise about the code would be wrong: fail loudly
			c.Or.Extra["WARNING"] = "a loaded 0.5.10/0.5.11 message differs from today's message in a field other than the select indexes; see first_difference (the model comparison fails on that case too)"
		}
	})
}
