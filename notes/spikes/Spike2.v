From Coq Require Import List NArith Lia Bool Arith.
Import ListNotations.

Definition key := list N.
Definition label := option N.

Fixpoint lex_cmp (a b : key) : comparison :=
  match a, b with
  | [], [] => Eq
  | [], _ :: _ => Lt
  | _ :: _, [] => Gt
  | x :: a', y :: b' =>
    match N.compare x y with
    | Eq => lex_cmp a' b'
    | c => c
    end
  end.

Definition lab_cmp (a b : label) : comparison :=
  match a, b with
  | None, None => Eq
  | None, Some _ => Lt
  | Some _, None => Gt
  | Some x, Some y => N.compare x y
  end.

Definition label_at (w : nat) (k : key) : label := nth_error k w.

Lemma lex_cmp_refl a : lex_cmp a a = Eq.
Proof. induction a as [|x a IH]; cbn; [reflexivity|]. rewrite N.compare_refl. exact IH. Qed.

Lemma lex_cmp_eq a b : lex_cmp a b = Eq -> a = b.
Proof.
  revert b; induction a as [|x a IH]; intros [|y b]; cbn; try congruence.
  destruct (N.compare x y) eqn:E; try congruence.
  apply N.compare_eq in E. intros H. f_equal; auto.
Qed.

Lemma lex_cmp_antisym a b : lex_cmp b a = CompOpp (lex_cmp a b).
Proof.
  revert b; induction a as [|x a IH]; intros [|y b]; cbn; try reflexivity.
  rewrite (N.compare_antisym x y). destruct (N.compare x y); cbn; auto.
Qed.

(* The key order lemma: two keys that agree on their first w positions compare
   by their labels at w, and if the labels are equal, by the rest. *)
Lemma lex_cmp_at w : forall a b,
  firstn w a = firstn w b -> w <= length a -> w <= length b ->
  lex_cmp a b =
    match lab_cmp (label_at w a) (label_at w b) with
    | Eq => lex_cmp (skipn (S w) a) (skipn (S w) b)
    | c => c
    end.
Proof.
  induction w as [|w IH]; intros a b Hf Ha Hb.
  - destruct a as [|x a], b as [|y b]; cbn; reflexivity.
  - destruct a as [|x a]; [cbn in Ha; lia|]. destruct b as [|y b]; [cbn in Hb; lia|].
    cbn in Hf. injection Hf as Hxy Hf. subst y. cbn [lex_cmp]. rewrite N.compare_refl.
    cbn in Ha, Hb. rewrite (IH a b Hf) by lia. reflexivity.
Qed.

Lemma lab_lt_key_lt w a b :
  firstn w a = firstn w b -> w <= length a -> w <= length b ->
  lab_cmp (label_at w a) (label_at w b) = Lt -> lex_cmp a b = Lt.
Proof. intros Hf Ha Hb Hl. rewrite (lex_cmp_at w a b Hf Ha Hb), Hl. reflexivity. Qed.

Lemma lab_gt_key_gt w a b :
  firstn w a = firstn w b -> w <= length a -> w <= length b ->
  lab_cmp (label_at w a) (label_at w b) = Gt -> lex_cmp a b = Gt.
Proof. intros Hf Ha Hb Hl. rewrite (lex_cmp_at w a b Hf Ha Hb), Hl. reflexivity. Qed.

(* ---------------------------------------------------------------- *)

Record entry := { ekey : key; ekept : bool; eidx : nat }.

Definition label_eqb (a b : label) : bool :=
  match lab_cmp a b with Eq => true | _ => false end.
Lemma lab_cmp_eq a b : lab_cmp a b = Eq <-> a = b.
Proof. destruct a, b; cbn; try (split; congruence). rewrite N.compare_eq_iff. split; congruence. Qed.

Definition grp (w : nat) (l : label) (ks : list entry) : list entry :=
  filter (fun e => label_eqb (label_at w (ekey e)) l) ks.

Lemma in_grp w l ks e : In e (grp w l ks) <-> In e ks /\ label_at w (ekey e) = l.
Proof. unfold grp. rewrite filter_In. unfold label_eqb.
  split; intros [H1 H2]; split; auto.
  - apply lab_cmp_eq. destruct (lab_cmp _ _); congruence.
  - apply lab_cmp_eq in H2. rewrite H2. reflexivity.
Qed.

Definition agree (w : nat) (ks : list entry) : Prop :=
  forall e1 e2, In e1 ks -> In e2 ks -> firstn w (ekey e1) = firstn w (ekey e2).

Inductive T :=
| Leaf (i : nat)
| Inner (ch : list (label * T)).

(* greatest leaf of a tree = last child recursively *)
Fixpoint tmax (t : T) : option nat :=
  match t with
  | Leaf i => Some i
  | Inner ch =>
    (fix go (ch : list (label * T)) (acc : option nat) : option nat :=
       match ch with
       | [] => acc
       | (_, c) :: r => go r (tmax c)
       end) ch None
  end.

(* labels strictly ascending *)
Inductive asc : list label -> Prop :=
| asc_nil : asc []
| asc_one l : asc [l]
| asc_cons a b r : lab_cmp a b = Lt -> asc (b :: r) -> asc (a :: b :: r).

Inductive TrieOf : list entry -> nat -> T -> Prop :=
| TO_leaf e p : ekept e = true -> TrieOf [e] p (Leaf (eidx e))
| TO_inner ks p w ch :
    p <= w -> agree w ks ->
    (forall e, In e ks -> w <= length (ekey e)) ->
    ch <> [] ->
    asc (map fst ch) ->
    (forall e, In e ks -> ekept e = true -> In (label_at w (ekey e)) (map fst ch)) ->
    (forall l c, In (l, c) ch -> (exists e, In e (grp w l ks) /\ ekept e = true)) ->
    (forall l c, In (l, c) ch -> TrieOf (grp w l ks) (w + match l with None => 0 | _ => 1 end) c) ->
    TrieOf ks p (Inner ch).

(* e is the greatest kept entry of ks *)
Definition is_max (ks : list entry) (e : entry) : Prop :=
  In e ks /\ ekept e = true /\
  forall e', In e' ks -> ekept e' = true -> lex_cmp (ekey e') (ekey e) <> Gt.

Lemma go_last (ch : list (label * T)) acc :
  (fix go (ch : list (label * T)) (acc : option nat) : option nat :=
       match ch with
       | [] => acc
       | (_, c) :: r => go r (tmax c)
       end) ch acc =
  match rev ch with [] => acc | (_, c) :: _ => tmax c end.
Proof.
  revert acc. induction ch as [|[l c] r IH]; intros acc; [reflexivity|].
  rewrite IH. cbn [rev]. destruct (rev r) as [|[l' c'] r'] eqn:E; reflexivity.
Qed.

Lemma asc_last_max ls :
  asc ls -> forall lz r, rev ls = lz :: r -> forall l, In l ls -> lab_cmp l lz <> Gt.
Proof.
  intros Hasc. induction Hasc as [|a|a b r0 Hab Hasc IH]; intros lz r Hrev l Hin.
  - inversion Hin.
  - cbn in Hrev. injection Hrev as <- _. destruct Hin as [<-|[]].
    assert (H: lab_cmp a a = Eq) by (apply lab_cmp_eq; reflexivity). congruence.
  - cbn [rev] in Hrev. cbn [rev] in IH.
    destruct (rev r0 ++ [b]) as [|z zs] eqn:E.
    { destruct (rev r0); discriminate. }
    cbn in Hrev. injection Hrev as -> _.
    specialize (IH lz zs eq_refl).
    destruct Hin as [<-|Hin]; [|apply IH; exact Hin].
    (* a < b <= lz *)
    pose proof (IH b (or_introl eq_refl)) as Hb.
    destruct a as [x|], b as [y|], lz as [z|]; cbn in *; try congruence.
    rewrite N.compare_lt_iff in Hab. intros Hgt. rewrite N.compare_gt_iff in Hgt.
    apply Hb. apply N.compare_gt_iff. lia.
Qed.

Theorem tmax_is_max ks p t :
  TrieOf ks p t -> exists e, is_max ks e /\ tmax t = Some (eidx e).
Proof.
  intros H. induction H as [e p Hk | ks p w ch Hpw Hag Hlong Hne Hasc Hlab Hgrp Hch IH].
  - exists e. split; [|reflexivity]. split; [left; reflexivity|]. split; [exact Hk|].
    intros e' [<-|[]] _. rewrite lex_cmp_refl. congruence.
  - cbn [tmax]. rewrite go_last.
    destruct (rev ch) as [|[lz cz] rz] eqn:Erev.
    { exfalso. apply Hne. rewrite <- (rev_involutive ch), Erev. reflexivity. }
    assert (Hinz : In (lz, cz) ch).
    { apply in_rev. rewrite Erev. left; reflexivity. }
    destruct (IH lz cz Hinz) as [e [[Hin [Hkept Hmax]] Htm]].
    exists e. split; [|exact Htm].
    apply in_grp in Hin. destruct Hin as [Hin Hle].
    split; [exact Hin|]. split; [exact Hkept|].
    intros e' Hin' Hk'.
    pose proof (Hlab e' Hin' Hk') as Hl'.
    assert (Hrevm : rev (map fst ch) = lz :: map fst rz).
    { rewrite <- map_rev, Erev. reflexivity. }
    pose proof (asc_last_max (map fst ch) Hasc lz (map fst rz) Hrevm (label_at w (ekey e')) Hl') as Hcmp.
    destruct (lab_cmp (label_at w (ekey e')) lz) eqn:Ec; [| |congruence].
    + (* same label: inside the last group, use the child's maximality *)
      apply lab_cmp_eq in Ec. apply Hmax; [|exact Hk']. apply in_grp. split; assumption.
    + (* smaller label => smaller key *)
      assert (Hlt : lex_cmp (ekey e') (ekey e) = Lt).
      { apply (lab_lt_key_lt w);
          [apply Hag; assumption | apply Hlong; assumption | apply Hlong; assumption
          | rewrite Hle; exact Ec]. }
      congruence.
Qed.
Print Assumptions tmax_is_max.
