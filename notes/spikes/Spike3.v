From Coq Require Import List NArith Lia Bool Arith.
Import ListNotations.
Require Import Spike2.

(* Complete-mode three-way search on a tree whose inner nodes store the whole
   common prefix [pre] (so w = length pre) and whose leaves store the whole key.
   Entries may be de-duplicated (ekept = false): they take part in subsets and
   in [agree], but have no leaf and contribute no label. *)

Inductive T2 :=
| Leaf2 (k : key) (i : nat)
| Inner2 (pre : key) (ch : list (label * T2)).

Fixpoint tmax2 (t : T2) : option nat :=
  match t with
  | Leaf2 _ i => Some i
  | Inner2 _ ch =>
    (fix go (ch : list (label * T2)) (acc : option nat) : option nat :=
       match ch with [] => acc | (_, c) :: r => go r (tmax2 c) end) ch None
  end.

Fixpoint tmin2 (t : T2) : option nat :=
  match t with
  | Leaf2 _ i => Some i
  | Inner2 _ ch => match ch with [] => None | (_, c) :: _ => tmin2 c end
  end.

Definition res := (option nat * option nat * option nat)%type.

Fixpoint tsearch (t : T2) (q : key) (l r : option nat) {struct t} : res :=
  match t with
  | Leaf2 k i =>
    match lex_cmp q k with
    | Eq => (l, Some i, r)
    | Lt => (l, None, Some i)
    | Gt => (Some i, None, r)
    end
  | Inner2 pre ch =>
    let w := length pre in
    match lex_cmp (firstn w q) pre with
    | Lt => (l, None, tmin2 t)
    | Gt => (tmax2 t, None, r)
    | Eq =>
      (fix go (ch : list (label * T2)) (l : option nat) : res :=
         match ch with
         | [] => (l, None, r)
         | (lb, c) :: rest =>
           match lab_cmp lb (label_at w q) with
           | Lt => go rest (tmax2 c)
           | Eq => tsearch c q l (match rest with [] => r | (_, c') :: _ => tmin2 c' end)
           | Gt => (l, None, tmin2 c)
           end
         end) ch l
    end
  end.

Inductive TrieOf2 : list entry -> T2 -> Prop :=
| TO2_leaf e : ekept e = true -> TrieOf2 [e] (Leaf2 (ekey e) (eidx e))
| TO2_inner ks pre ch :
    let w := length pre in
    (forall e, In e ks -> firstn w (ekey e) = pre) ->
    (forall e, In e ks -> w <= length (ekey e)) ->
    ch <> [] ->
    asc (map fst ch) ->
    (forall e, In e ks -> ekept e = true -> In (label_at w (ekey e)) (map fst ch)) ->
    (forall l c, In (l, c) ch -> exists e, In e (grp w l ks) /\ ekept e = true) ->
    (forall l c, In (l, c) ch -> TrieOf2 (grp w l ks) c) ->
    TrieOf2 ks (Inner2 pre ch).

(* specification, relational *)
Definition kept_in (ks : list entry) (e : entry) := In e ks /\ ekept e = true.

Definition is_pred ks q e :=
  kept_in ks e /\ lex_cmp (ekey e) q = Lt /\
  forall e', kept_in ks e' -> lex_cmp (ekey e') q = Lt -> lex_cmp (ekey e') (ekey e) <> Gt.
Definition is_succ ks q e :=
  kept_in ks e /\ lex_cmp (ekey e) q = Gt /\
  forall e', kept_in ks e' -> lex_cmp (ekey e') q = Gt -> lex_cmp (ekey e') (ekey e) <> Lt.
Definition is_min ks e :=
  kept_in ks e /\ forall e', kept_in ks e' -> lex_cmp (ekey e') (ekey e) <> Lt.
Definition is_max' ks e :=
  kept_in ks e /\ forall e', kept_in ks e' -> lex_cmp (ekey e') (ekey e) <> Gt.

(* what a correct answer is, given the candidates inherited from the ancestors *)
Definition good (ks : list entry) (q : key) (l r : option nat) (x : res) : Prop :=
  let '(l', eq', r') := x in
  ((exists e, is_pred ks q e /\ l' = Some (eidx e)) \/
   ((forall e, kept_in ks e -> lex_cmp (ekey e) q <> Lt) /\ l' = l)) /\
  ((exists e, kept_in ks e /\ ekey e = q /\ eq' = Some (eidx e)) \/
   ((forall e, kept_in ks e -> ekey e <> q) /\ eq' = None)) /\
  ((exists e, is_succ ks q e /\ r' = Some (eidx e)) \/
   ((forall e, kept_in ks e -> lex_cmp (ekey e) q <> Gt) /\ r' = r)).

Lemma lex_cmp_gt_lt a b : lex_cmp a b = Gt <-> lex_cmp b a = Lt.
Proof. rewrite (lex_cmp_antisym a b). destruct (lex_cmp a b); cbn; split; congruence. Qed.

Lemma lex_cmp_trans_lt a b c : lex_cmp a b = Lt -> lex_cmp b c = Lt -> lex_cmp a c = Lt.
Proof.
  revert b c; induction a as [|x a IH]; intros [|y b] [|z c]; cbn; try congruence.
  destruct (N.compare x y) eqn:E1; try congruence;
  destruct (N.compare y z) eqn:E2; try congruence; intros H1 H2.
  - apply N.compare_eq in E1, E2. subst. rewrite N.compare_refl. eauto.
  - apply N.compare_eq in E1. subst. rewrite E2. reflexivity.
  - apply N.compare_eq in E2. subst. rewrite E1. reflexivity.
  - rewrite N.compare_lt_iff in E1, E2. assert (H: (x < z)%N) by lia.
    apply N.compare_lt_iff in H. rewrite H. reflexivity.
Qed.

(* a query that is below (above) the stored prefix is below (above) every key that has this prefix *)
Lemma below_prefix w q pre k :
  firstn w k = pre -> length pre = w ->
  lex_cmp (firstn w q) pre = Lt -> lex_cmp q k = Lt.
Proof.
  intros <- _. revert q k. induction w as [|w IH]; intros q k; cbn.
  - discriminate.
  - destruct q as [|x q], k as [|y k]; cbn; try congruence.
    destruct (N.compare x y); try congruence. apply IH.
Qed.

Lemma above_prefix w q pre k :
  firstn w k = pre -> length pre = w ->
  lex_cmp (firstn w q) pre = Gt -> lex_cmp q k = Gt.
Proof.
  intros <- Hlen. revert q k Hlen. induction w as [|w IH]; intros q k Hlen; cbn.
  - destruct q; cbn; discriminate.
  - destruct q as [|x q], k as [|y k]; cbn in *; try congruence.
    destruct (N.compare x y); try congruence. apply IH. lia.
Qed.

Lemma eq_prefix w q pre :
  length pre = w -> lex_cmp (firstn w q) pre = Eq -> firstn w q = pre /\ w <= length q.
Proof.
  intros Hlen H. apply lex_cmp_eq in H. split; [exact H|].
  rewrite <- Hlen, <- H. rewrite firstn_length. lia.
Qed.
