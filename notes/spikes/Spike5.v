From Coq Require Import List NArith Lia Bool Arith.
Import ListNotations.
Require Import Spike2 Spike3 Spike4.

Lemma asc_app_r l1 l2 : asc (l1 ++ l2) -> asc l2.
Proof. induction l1 as [|a l1 IH]; cbn; intros H; [exact H|]. apply IH. eapply asc_tail; exact H. Qed.

Lemma asc_app_lt l1 b l2 : asc (l1 ++ b :: l2) -> forall a, In a l1 -> lab_cmp a b = Lt.
Proof.
  induction l1 as [|x l1 IH]; cbn; intros H a Hin; [inversion Hin|].
  destruct Hin as [<-|Hin].
  - apply (asc_head_lt x (l1 ++ b :: l2) H). apply in_or_app. right; left; reflexivity.
  - apply IH; [eapply asc_tail; exact H|exact Hin].
Qed.

Lemma lab_cmp_gt_lt a b : lab_cmp a b = Gt <-> lab_cmp b a = Lt.
Proof.
  destruct a as [x|], b as [y|]; cbn; try (split; congruence).
  rewrite N.compare_gt_iff, N.compare_lt_iff. tauto.
Qed.

Section Node.
  Variables (ks : list entry) (pre : key) (q : key).
  Let w := length pre.
  Hypothesis Hpre : forall e, In e ks -> firstn w (ekey e) = pre.
  Hypothesis Hlong : forall e, In e ks -> w <= length (ekey e).
  Hypothesis Hq : firstn w q = pre.
  Hypothesis Hqlen : w <= length q.
  Let lab := label_at w q.

  Lemma lab_lt_q e : In e ks -> lab_cmp (label_at w (ekey e)) lab = Lt -> lex_cmp (ekey e) q = Lt.
  Proof. intros Hin Hl. apply (lab_lt_key_lt w); auto. rewrite Hq. apply Hpre; exact Hin. Qed.

  Lemma lab_gt_q e : In e ks -> lab_cmp (label_at w (ekey e)) lab = Gt -> lex_cmp (ekey e) q = Gt.
  Proof. intros Hin Hl. apply (lab_gt_key_gt w); auto. rewrite Hq. apply Hpre; exact Hin. Qed.

  Lemma lab_lt_keys e1 e2 : In e1 ks -> In e2 ks ->
    lab_cmp (label_at w (ekey e1)) (label_at w (ekey e2)) = Lt -> lex_cmp (ekey e1) (ekey e2) = Lt.
  Proof. intros H1 H2 Hl. apply (lab_lt_key_lt w); auto. rewrite (Hpre e1 H1), (Hpre e2 H2). reflexivity. Qed.

  Lemma key_eq_lab e : ekey e = q -> label_at w (ekey e) = lab.
  Proof. intros ->. reflexivity. Qed.
End Node.

Ltac lt_not_gt H := rewrite H; discriminate.

Theorem tsearch_good ks t :
  TrieOf2 ks t -> forall q l r, good ks q l r (tsearch t q l r).
Proof.
  intros H. induction H as [e Hk | ks pre ch w Hpre Hlong Hne Hasc Hlab Hgrp Hch IH]; intros q l r.
  - (* leaf *)
    cbn [tsearch]. destruct (lex_cmp q (ekey e)) eqn:E.
    + apply lex_cmp_eq in E. subst q. cbn. repeat split.
      * right. split; [|reflexivity]. intros e' [[<-|[]] _]. rewrite lex_cmp_refl. discriminate.
      * left. exists e. repeat split; auto. left; reflexivity.
      * right. split; [|reflexivity]. intros e' [[<-|[]] _]. rewrite lex_cmp_refl. discriminate.
    + assert (Hgt : lex_cmp (ekey e) q = Gt) by (apply lex_cmp_gt_lt; exact E).
      cbn. repeat split.
      * right. split; [|reflexivity]. intros e' [[<-|[]] _]. rewrite Hgt. discriminate.
      * right. split; [|reflexivity]. intros e' [[<-|[]] _] Heq. rewrite Heq, lex_cmp_refl in Hgt. discriminate.
      * left. exists e. split; [|reflexivity]. split; [split; [left; reflexivity|exact Hk]|].
        split; [exact Hgt|]. intros e' [[<-|[]] _] _. rewrite lex_cmp_refl. discriminate.
    + assert (Hlt : lex_cmp (ekey e) q = Lt) by (apply lex_cmp_gt_lt; exact E).
      cbn. repeat split.
      * left. exists e. split; [|reflexivity]. split; [split; [left; reflexivity|exact Hk]|].
        split; [exact Hlt|]. intros e' [[<-|[]] _] _. rewrite lex_cmp_refl. discriminate.
      * right. split; [|reflexivity]. intros e' [[<-|[]] _] Heq. rewrite Heq, lex_cmp_refl in Hlt. discriminate.
      * right. split; [|reflexivity]. intros e' [[<-|[]] _]. rewrite Hlt. discriminate.
  - (* inner *)
    assert (Htrie : TrieOf2 ks (Inner2 pre ch)) by (econstructor; eassumption).
    cbn [tsearch]. fold w.
    destruct (lex_cmp (firstn w q) pre) eqn:Ecmp.
    2:{ (* query below the whole subtree *)
      destruct (tmin2_is_min _ _ Htrie) as [em [[Hkm Hmin] Htm]].
      assert (Hall : forall e, In e ks -> lex_cmp (ekey e) q = Gt).
      { intros e Hin. apply lex_cmp_gt_lt. apply (below_prefix w q pre); auto. }
      rewrite Htm. cbn. repeat split.
      - right. split; [|reflexivity]. intros e [Hin _]. rewrite (Hall e Hin). discriminate.
      - right. split; [|reflexivity]. intros e [Hin _] Heq. pose proof (Hall e Hin) as Hg.
        rewrite Heq, lex_cmp_refl in Hg. discriminate.
      - left. exists em. split; [|reflexivity]. split; [exact Hkm|]. split; [apply Hall; apply Hkm|].
        intros e' Hk' _. apply Hmin; exact Hk'. }
    2:{ (* query above the whole subtree *)
      destruct (tmax2_is_max _ _ Htrie) as [em [[Hkm Hmax] Htm]].
      assert (Hall : forall e, In e ks -> lex_cmp (ekey e) q = Lt).
      { intros e Hin. apply lex_cmp_gt_lt. apply (above_prefix w q pre); auto. }
      rewrite Htm. cbn. repeat split.
      - left. exists em. split; [|reflexivity]. split; [exact Hkm|]. split; [apply Hall; apply Hkm|].
        intros e' Hk' _. apply Hmax; exact Hk'.
      - right. split; [|reflexivity]. intros e [Hin _] Heq. pose proof (Hall e Hin) as Hg.
        rewrite Heq, lex_cmp_refl in Hg. discriminate.
      - right. split; [|reflexivity]. intros e [Hin _]. rewrite (Hall e Hin). discriminate. }
    (* query agrees with the stored prefix: walk the labels *)
    destruct (eq_prefix w q pre eq_refl Ecmp) as [Hq Hqlen].
    set (lab := label_at w q).
    pose proof (lab_lt_q ks pre q Hpre Hlong Hq Hqlen) as LTQ.
    pose proof (lab_gt_q ks pre q Hpre Hlong Hq Hqlen) as GTQ.
    pose proof (lab_lt_keys ks pre Hpre Hlong) as LTK.
    fold w in LTQ, GTQ, LTK. fold lab in LTQ, GTQ.
    (* loop invariant over ch = done ++ rest *)
    assert (Loop : forall rest done lcur,
      ch = done ++ rest ->
      (forall lb, In lb (map fst done) -> lab_cmp lb lab = Lt) ->
      ((exists e, kept_in ks e /\ In (label_at w (ekey e)) (map fst done) /\ lcur = Some (eidx e) /\
                  forall e', kept_in ks e' -> In (label_at w (ekey e')) (map fst done) ->
                             lex_cmp (ekey e') (ekey e) <> Gt)
       \/ (done = [] /\ lcur = l)) ->
      good ks q l r
        ((fix go (ch : list (label * T2)) (l : option nat) : res :=
         match ch with
         | [] => (l, None, r)
         | (lb, c) :: rest =>
           match lab_cmp lb (label_at w q) with
           | Lt => go rest (tmax2 c)
           | Eq => tsearch c q l (match rest with [] => r | (_, c') :: _ => tmin2 c' end)
           | Gt => (l, None, tmin2 c)
           end
         end) rest lcur)).
    { induction rest as [|[lb c] rest' IHrest]; intros done lcur Hch_eq Hdone Hinv.
      - (* all labels are below the query's *)
        rewrite app_nil_r in Hch_eq. subst done.
        assert (Hall : forall e, kept_in ks e -> lex_cmp (ekey e) q = Lt).
        { intros e [Hin Hk]. apply LTQ; [exact Hin|]. apply Hdone. apply Hlab; assumption. }
        cbn. repeat split.
        + destruct Hinv as [[e [Hke [Hle [-> Hmax]]]]|[-> _]]; [|congruence].
          left. exists e. split; [|reflexivity]. split; [exact Hke|]. split; [apply Hall; exact Hke|].
          intros e' Hk' _. apply Hmax; [exact Hk'|]. apply Hlab; apply Hk'.
        + right. split; [|reflexivity]. intros e Hke Heq. pose proof (Hall e Hke) as Hl.
          rewrite Heq, lex_cmp_refl in Hl. discriminate.
        + right. split; [|reflexivity]. intros e Hke. rewrite (Hall e Hke). discriminate.
      - assert (Hinc : In (lb, c) ch) by (rewrite Hch_eq; apply in_or_app; right; left; reflexivity).
        assert (Hasc' : asc (map fst done ++ lb :: map fst rest')).
        { rewrite Hch_eq, map_app in Hasc. exact Hasc. }
        assert (Hdone_lb : forall a, In a (map fst done) -> lab_cmp a lb = Lt) by (apply (asc_app_lt _ _ _ Hasc')).
        assert (Hrest_lb : forall a, In a (map fst rest') -> lab_cmp lb a = Lt).
        { apply asc_head_lt. apply (asc_app_r (map fst done)). exact Hasc'. }
        (* where can the label of a kept entry be? *)
        assert (Hwhere : forall e, kept_in ks e ->
                  In (label_at w (ekey e)) (map fst done) \/ label_at w (ekey e) = lb \/
                  In (label_at w (ekey e)) (map fst rest')).
        { intros e [Hin Hk]. pose proof (Hlab e Hin Hk) as Hl. rewrite Hch_eq, map_app in Hl.
          apply in_app_or in Hl. destruct Hl as [Hl|[Hl|Hl]]; auto. }
        destruct (tmax2_is_max _ _ (Hch lb c Hinc)) as [emax [[[Hinmax Hkmax] Hmaxmax] Htmax]].
        destruct (tmin2_is_min _ _ (Hch lb c Hinc)) as [emin [[[Hinmin Hkmin] Hminmin] Htmin]].
        apply in_grp in Hinmax. destruct Hinmax as [Hinmax Hlmax].
        apply in_grp in Hinmin. destruct Hinmin as [Hinmin Hlmin].
        cbn iota beta. fold lab.
        destruct (lab_cmp lb lab) eqn:Elb.
        + (* the query's label: descend *)
          apply lab_cmp_eq in Elb.
          set (r1 := match rest' with [] => r | (_, c') :: _ => tmin2 c' end).
          pose proof (IH lb c Hinc q lcur r1) as Hchild.
          destruct (tsearch c q lcur r1) as [[l' eq'] r'].
          cbn in Hchild |- *. destruct Hchild as [Hp [He Hs]].
          (* entries in rest' are above q, entries in done are below q *)
          assert (Hrest_gt : forall e, kept_in ks e -> In (label_at w (ekey e)) (map fst rest') ->
                               lex_cmp (ekey e) q = Gt).
          { intros e [Hin _] Hl. apply GTQ; [exact Hin|]. apply lab_cmp_gt_lt. rewrite <- Elb. apply Hrest_lb; exact Hl. }
          assert (Hdone_lt : forall e, kept_in ks e -> In (label_at w (ekey e)) (map fst done) ->
                               lex_cmp (ekey e) q = Lt).
          { intros e [Hin _] Hl. apply LTQ; [exact Hin|]. apply Hdone; exact Hl. }
          repeat split.
          * destruct Hp as [[e [[[Hing Hkg] [Hlt Hbest]] ->]]|[Hnone ->]].
            -- left. exists e. split; [|reflexivity]. apply in_grp in Hing. destruct Hing as [Hin Hle].
               split; [split; assumption|]. split; [exact Hlt|].
               intros e' Hk' Hlt'. destruct (Hwhere e' Hk') as [Hd|[Hm|Hr]].
               ++ assert (X : lex_cmp (ekey e') (ekey e) = Lt).
                  { apply LTK; [apply Hk'|exact Hin|]. rewrite Hle. apply Hdone_lb; exact Hd. }
                  rewrite X; discriminate.
               ++ apply Hbest; [|exact Hlt']. split; [|apply Hk']. apply in_grp. split; [apply Hk'|exact Hm].
               ++ rewrite (Hrest_gt e' Hk' Hr) in Hlt'. discriminate.
            -- destruct Hinv as [[e [Hke [Hle [-> Hmax]]]]|[-> ->]].
               ++ left. exists e. split; [|reflexivity]. split; [exact Hke|]. split; [apply Hdone_lt; assumption|].
                  intros e' Hk' Hlt'. destruct (Hwhere e' Hk') as [Hd|[Hm|Hr]].
                  ** apply Hmax; assumption.
                  ** exfalso. apply (Hnone e'); [|exact Hlt']. split; [|apply Hk']. apply in_grp. split; [apply Hk'|exact Hm].
                  ** rewrite (Hrest_gt e' Hk' Hr) in Hlt'. discriminate.
               ++ right. split; [|reflexivity]. intros e' Hk' Hlt'. destruct (Hwhere e' Hk') as [Hd|[Hm|Hr]].
                  ** inversion Hd.
                  ** apply (Hnone e'); [|exact Hlt']. split; [|apply Hk']. apply in_grp. split; [apply Hk'|exact Hm].
                  ** rewrite (Hrest_gt e' Hk' Hr) in Hlt'. discriminate.
          * destruct He as [[e [[Hing Hkg] [Hkey ->]]]|[Hnone ->]].
            -- left. exists e. apply in_grp in Hing. destruct Hing as [Hin _]. repeat split; assumption.
            -- right. split; [|reflexivity]. intros e' Hk' Hkey. apply (Hnone e'); [|exact Hkey].
               split; [|apply Hk']. apply in_grp. split; [apply Hk'|]. rewrite Elb. subst q. reflexivity.
          * destruct Hs as [[e [[[Hing Hkg] [Hgt Hbest]] ->]]|[Hnone Hr']].
            -- left. exists e. split; [|reflexivity]. apply in_grp in Hing. destruct Hing as [Hin Hle].
               split; [split; assumption|]. split; [exact Hgt|].
               intros e' Hk' Hgt'. destruct (Hwhere e' Hk') as [Hd|[Hm|Hr]].
               ++ rewrite (Hdone_lt e' Hk' Hd) in Hgt'. discriminate.
               ++ apply Hbest; [|exact Hgt']. split; [|apply Hk']. apply in_grp. split; [apply Hk'|exact Hm].
               ++ assert (X : lex_cmp (ekey e) (ekey e') = Lt).
                  { apply LTK; [exact Hin|apply Hk'|]. rewrite Hle. apply Hrest_lb; exact Hr. }
                  rewrite (lex_cmp_antisym (ekey e) (ekey e')), X. discriminate.
            -- subst r'. unfold r1. destruct rest' as [|[l2 c2] rest2].
               ++ right. split; [|reflexivity]. intros e' Hk' Hgt'. destruct (Hwhere e' Hk') as [Hd|[Hm|Hr]].
                  ** rewrite (Hdone_lt e' Hk' Hd) in Hgt'. discriminate.
                  ** apply (Hnone e'); [|exact Hgt']. split; [|apply Hk']. apply in_grp. split; [apply Hk'|exact Hm].
                  ** inversion Hr.
               ++ assert (Hin2 : In (l2, c2) ch).
                  { rewrite Hch_eq. apply in_or_app. right. right. left. reflexivity. }
                  destruct (tmin2_is_min _ _ (Hch l2 c2 Hin2)) as [e2 [[[Hin2g Hk2] Hmin2] Htm2]].
                  apply in_grp in Hin2g. destruct Hin2g as [Hin2k Hl2].
                  left. exists e2. split; [|exact Htm2].
                  assert (Hk2in : kept_in ks e2) by (split; assumption).
                  split; [exact Hk2in|]. split.
                  { apply Hrest_gt; [exact Hk2in|]. rewrite Hl2. left; reflexivity. }
                  intros e' Hk' Hgt'. destruct (Hwhere e' Hk') as [Hd|[Hm|Hr]].
                  ** rewrite (Hdone_lt e' Hk' Hd) in Hgt'. discriminate.
                  ** exfalso. apply (Hnone e'); [|exact Hgt']. split; [|apply Hk']. apply in_grp. split; [apply Hk'|exact Hm].
                  ** cbn [map fst] in Hr. destruct Hr as [Hr|Hr].
                     --- apply Hmin2. split; [|apply Hk']. apply in_grp. split; [apply Hk'|congruence].
                     --- assert (X : lex_cmp (ekey e2) (ekey e') = Lt).
                         { apply LTK; [exact Hin2k|apply Hk'|]. rewrite Hl2.
                           assert (Hasc2 : asc (l2 :: map fst rest2)).
                           { apply (asc_tail lb). apply (asc_app_r (map fst done)). exact Hasc'. }
                           apply (asc_head_lt l2 _ Hasc2). exact Hr. }
                         rewrite (lex_cmp_antisym (ekey e2) (ekey e')), X. discriminate.
        + (* a smaller label: it becomes the left candidate *)
          apply (IHrest (done ++ [(lb, c)]) (tmax2 c)).
          * rewrite <- app_assoc. exact Hch_eq.
          * intros a Ha. rewrite map_app in Ha. apply in_app_or in Ha. destruct Ha as [Ha|[<-|[]]]; auto.
          * left. exists emax. split; [split; assumption|]. split.
            { rewrite map_app. apply in_or_app. right. left. exact (eq_sym Hlmax). }
            split; [exact Htmax|].
            intros e' Hk' Hl'. rewrite map_app in Hl'. apply in_app_or in Hl'. destruct Hl' as [Hd|[Hm|[]]].
            -- assert (X : lex_cmp (ekey e') (ekey emax) = Lt).
               { apply LTK; [apply Hk'|exact Hinmax|]. rewrite Hlmax. apply Hdone_lb; exact Hd. }
               rewrite X; discriminate.
            -- apply Hmaxmax. split; [|apply Hk']. apply in_grp. split; [apply Hk'|]. cbn in Hm. congruence.
        + (* a greater label: stop, it is the right candidate *)
          assert (Hrest_gt : forall e, kept_in ks e ->
                    label_at w (ekey e) = lb \/ In (label_at w (ekey e)) (map fst rest') ->
                    lex_cmp (ekey e) q = Gt).
          { intros e [Hin _] Hl. apply GTQ; [exact Hin|]. apply lab_cmp_gt_lt.
            destruct Hl as [->|Hl]; [apply lab_cmp_gt_lt; exact Elb|].
            apply (lab_cmp_trans_lt lab lb); [apply lab_cmp_gt_lt; exact Elb|apply Hrest_lb; exact Hl]. }
          assert (Hdone_lt : forall e, kept_in ks e -> In (label_at w (ekey e)) (map fst done) ->
                               lex_cmp (ekey e) q = Lt).
          { intros e [Hin _] Hl. apply LTQ; [exact Hin|]. apply Hdone; exact Hl. }
          rewrite Htmin. cbn. repeat split.
          * destruct Hinv as [[e [Hke [Hle [-> Hmax]]]]|[-> ->]].
            -- left. exists e. split; [|reflexivity]. split; [exact Hke|]. split; [apply Hdone_lt; assumption|].
               intros e' Hk' Hlt'. destruct (Hwhere e' Hk') as [Hd|Hr].
               ++ apply Hmax; assumption.
               ++ rewrite (Hrest_gt e' Hk' Hr) in Hlt'. discriminate.
            -- right. split; [|reflexivity]. intros e' Hk' Hlt'. destruct (Hwhere e' Hk') as [Hd|Hr].
               ++ inversion Hd.
               ++ rewrite (Hrest_gt e' Hk' Hr) in Hlt'. discriminate.
          * right. split; [|reflexivity]. intros e' Hk' Hkey. destruct (Hwhere e' Hk') as [Hd|Hr].
            -- pose proof (Hdone_lt e' Hk' Hd) as X. rewrite Hkey, lex_cmp_refl in X. discriminate.
            -- pose proof (Hrest_gt e' Hk' Hr) as X. rewrite Hkey, lex_cmp_refl in X. discriminate.
          * left. exists emin. split; [|reflexivity].
            assert (Hkm : kept_in ks emin) by (split; assumption).
            split; [exact Hkm|]. split; [apply Hrest_gt; [exact Hkm|left; exact Hlmin]|].
            intros e' Hk' Hgt'. destruct (Hwhere e' Hk') as [Hd|[Hm|Hr]].
            -- rewrite (Hdone_lt e' Hk' Hd) in Hgt'. discriminate.
            -- apply Hminmin. split; [|apply Hk']. apply in_grp. split; [apply Hk'|exact Hm].
            -- assert (X : lex_cmp (ekey emin) (ekey e') = Lt).
               { apply LTK; [exact Hinmin|apply Hk'|]. rewrite Hlmin. apply Hrest_lb; exact Hr. }
               rewrite (lex_cmp_antisym (ekey emin) (ekey e')), X. discriminate. }
    apply (Loop ch [] l eq_refl).
    + intros lb [].
    + right. split; reflexivity.
Qed.
Print Assumptions tsearch_good.
