From Coq Require Import List NArith Lia Bool Arith.
Import ListNotations.

Definition key := list N.
Definition label := option N.
Definition label_eqb (a b : label) : bool :=
  match a, b with
  | None, None => true
  | Some x, Some y => N.eqb x y
  | _, _ => false
  end.
Lemma label_eqb_eq a b : label_eqb a b = true <-> a = b.
Proof. destruct a, b; simpl; try (split; congruence). rewrite N.eqb_eq. split; congruence. Qed.

Definition llen (l : label) : nat := match l with None => 0 | Some _ => 1 end.
Definition label_at (w : nat) (k : key) : label := nth_error k w.

Inductive T :=
| Leaf (i : nat)
| Inner (step : nat) (ch : list (label * T)).

Fixpoint tget (t : T) (q : key) (p : nat) {struct t} : option nat :=
  match t with
  | Leaf i => Some i
  | Inner step ch =>
    let w := p + step in
    if length q <? w then None else
    let l := label_at w q in
    (fix go (ch : list (label * T)) : option nat :=
       match ch with
       | [] => None
       | (l', c) :: r => if label_eqb l l' then tget c q (w + llen l) else go r
       end) ch
  end.

Record entry := { ekey : key; ekept : bool; eidx : nat }.

Definition grp (w : nat) (l : label) (ks : list entry) : list entry :=
  filter (fun e => label_eqb (label_at w (ekey e)) l) ks.

Definition agree (w : nat) (ks : list entry) : Prop :=
  forall e1 e2 j, In e1 ks -> In e2 ks -> j < w -> nth_error (ekey e1) j = nth_error (ekey e2) j.

Inductive TrieOf : list entry -> nat -> T -> Prop :=
| TO_leaf e p : ekept e = true -> TrieOf [e] p (Leaf (eidx e))
| TO_inner ks p w ch :
    2 <= length ks -> p <= w ->
    agree w ks ->
    (forall e, In e ks -> w <= length (ekey e)) ->
    NoDup (map fst ch) ->
    (forall e, In e ks -> ekept e = true -> In (label_at w (ekey e)) (map fst ch)) ->
    (forall l c, In (l, c) ch -> TrieOf (grp w l ks) (w + llen l) c) ->
    TrieOf ks p (Inner (w - p) ch).

Lemma go_found q w (ch : list (label * T)) l c :
  NoDup (map fst ch) -> In (l, c) ch -> label_at w q = l ->
  (fix go (ch : list (label * T)) : option nat :=
       match ch with
       | [] => None
       | (l', c) :: r => if label_eqb (label_at w q) l' then tget c q (w + llen (label_at w q)) else go r
       end) ch = tget c q (w + llen l).
Proof.
  intros Hnd Hin Hl. induction ch as [|[l' c'] r IH]; [inversion Hin|].
  simpl in Hnd. inversion Hnd as [|? ? Hnotin Hnd']; subst.
  destruct Hin as [Heq|Hin].
  - inversion Heq; subst. replace (label_eqb (label_at w q) (label_at w q)) with true; [reflexivity|].
    symmetry; apply label_eqb_eq; reflexivity.
  - destruct (label_eqb (label_at w q) l') eqn:E.
    + apply label_eqb_eq in E. exfalso. apply Hnotin. rewrite <- E.
      change (label_at w q) with (fst (label_at w q, c)). apply in_map; exact Hin.
    + apply IH; assumption.
Qed.

Theorem kept_found ks p t :
  TrieOf ks p t ->
  forall e, In e ks -> ekept e = true ->
  (forall e', In e' ks -> eidx e' = eidx e -> e' = e) ->
  tget t (ekey e) p = Some (eidx e).
Proof.
  intros H. induction H as [e0 p Hk | ks p w ch Hlen Hpw Hag Hlong Hnd Hlab Hch IH]; intros e Hin Hkept Huniq.
  - destruct Hin as [->|[]]. reflexivity.
  - cbn [tget]. replace (p + (w - p)) with w by lia.
    pose proof (Hlong e Hin) as Hle.
    destruct (Nat.ltb_spec (length (ekey e)) w) as [Hlt|_]; [lia|].
    pose proof (Hlab e Hin Hkept) as Hl.
    apply in_map_iff in Hl. destruct Hl as [[l c] [Hfst Hinch]]. simpl in Hfst. subst l.
    rewrite (go_found (ekey e) w ch (label_at w (ekey e)) c Hnd Hinch eq_refl).
    apply (IH _ _ Hinch).
    + unfold grp. apply filter_In. split; [exact Hin|]. apply label_eqb_eq; reflexivity.
    + exact Hkept.
    + intros e' Hin' Hidx. apply Huniq; [|exact Hidx]. unfold grp in Hin'. apply filter_In in Hin'. tauto.
Qed.
Print Assumptions kept_found.
