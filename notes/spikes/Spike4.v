From Coq Require Import List NArith Lia Bool Arith.
Import ListNotations.
Require Import Spike2 Spike3.

Lemma go_last2 (ch : list (label * T2)) acc :
  (fix go (ch : list (label * T2)) (acc : option nat) : option nat :=
       match ch with [] => acc | (_, c) :: r => go r (tmax2 c) end) ch acc =
  match rev ch with [] => acc | (_, c) :: _ => tmax2 c end.
Proof.
  revert acc. induction ch as [|[l c] r IH]; intros acc; [reflexivity|].
  rewrite IH. cbn [rev]. destruct (rev r) as [|[l' c'] r'] eqn:E; reflexivity.
Qed.

Lemma lab_cmp_refl a : lab_cmp a a = Eq.
Proof. apply lab_cmp_eq; reflexivity. Qed.

Lemma lab_cmp_trans_lt a b c : lab_cmp a b = Lt -> lab_cmp b c = Lt -> lab_cmp a c = Lt.
Proof.
  destruct a as [x|], b as [y|], c as [z|]; cbn; try congruence.
  rewrite !N.compare_lt_iff. lia.
Qed.

Lemma asc_head_lt a ls : asc (a :: ls) -> forall l, In l ls -> lab_cmp a l = Lt.
Proof.
  revert a. induction ls as [|b r IH]; intros a Hasc l Hin; [inversion Hin|].
  inversion Hasc as [| |? ? ? Hab Hasc']; subst.
  destruct Hin as [<-|Hin]; [exact Hab|].
  apply (lab_cmp_trans_lt a b l Hab). apply IH; assumption.
Qed.

Lemma asc_tail a ls : asc (a :: ls) -> asc ls.
Proof. intros H. inversion H; subst; [constructor|assumption]. Qed.

(* extremal entries of a subtree *)
Theorem tmax2_is_max ks t :
  TrieOf2 ks t -> exists e, is_max' ks e /\ tmax2 t = Some (eidx e).
Proof.
  intros H. induction H as [e Hk | ks pre ch w Hpre Hlong Hne Hasc Hlab Hgrp Hch IH].
  - exists e. split; [|reflexivity]. split; [split; [left; reflexivity|exact Hk]|].
    intros e' [[<-|[]] _]. rewrite lex_cmp_refl. congruence.
  - cbn [tmax2]. rewrite go_last2.
    destruct (rev ch) as [|[lz cz] rz] eqn:Erev.
    { exfalso. apply Hne. rewrite <- (rev_involutive ch), Erev. reflexivity. }
    assert (Hinz : In (lz, cz) ch) by (apply in_rev; rewrite Erev; left; reflexivity).
    destruct (IH lz cz Hinz) as [e [[[Hin Hkept] Hmax] Htm]].
    exists e. split; [|exact Htm].
    apply in_grp in Hin. destruct Hin as [Hin Hle].
    split; [split; assumption|].
    intros e' [Hin' Hk'].
    pose proof (Hlab e' Hin' Hk') as Hl'.
    assert (Hrevm : rev (map fst ch) = lz :: map fst rz) by (rewrite <- map_rev, Erev; reflexivity).
    pose proof (asc_last_max (map fst ch) Hasc lz (map fst rz) Hrevm (label_at w (ekey e')) Hl') as Hcmp.
    destruct (lab_cmp (label_at w (ekey e')) lz) eqn:Ec; [| |congruence].
    + apply lab_cmp_eq in Ec. apply Hmax. split; [|exact Hk']. apply in_grp. split; assumption.
    + assert (Hlt : lex_cmp (ekey e') (ekey e) = Lt).
      { apply (lab_lt_key_lt w);
          [rewrite (Hpre e' Hin'), (Hpre e Hin); reflexivity
          | apply Hlong; assumption | apply Hlong; assumption | rewrite Hle; exact Ec]. }
      congruence.
Qed.

Theorem tmin2_is_min ks t :
  TrieOf2 ks t -> exists e, is_min ks e /\ tmin2 t = Some (eidx e).
Proof.
  intros H. induction H as [e Hk | ks pre ch w Hpre Hlong Hne Hasc Hlab Hgrp Hch IH].
  - exists e. split; [|reflexivity]. split; [split; [left; reflexivity|exact Hk]|].
    intros e' [[<-|[]] _]. rewrite lex_cmp_refl. congruence.
  - cbn [tmin2]. destruct ch as [|[l0 c0] r0]; [congruence|].
    assert (Hin0 : In (l0, c0) ((l0, c0) :: r0)) by (left; reflexivity).
    destruct (IH l0 c0 Hin0) as [e [[[Hin Hkept] Hmin] Htm]].
    exists e. split; [|exact Htm].
    apply in_grp in Hin. destruct Hin as [Hin Hle].
    split; [split; assumption|].
    intros e' [Hin' Hk'].
    pose proof (Hlab e' Hin' Hk') as Hl'. cbn [map fst] in Hl', Hasc.
    destruct Hl' as [Heq|Hl'].
    + apply Hmin. split; [|exact Hk']. apply in_grp. split; [assumption|congruence].
    + pose proof (asc_head_lt l0 (map fst r0) Hasc _ Hl') as Hlt0.
      assert (Hgt : lex_cmp (ekey e) (ekey e') = Lt).
      { apply (lab_lt_key_lt w);
          [rewrite (Hpre e' Hin'), (Hpre e Hin); reflexivity
          | apply Hlong; assumption | apply Hlong; assumption | rewrite Hle; exact Hlt0]. }
      rewrite (lex_cmp_antisym (ekey e) (ekey e')), Hgt. cbn. congruence.
Qed.
Print Assumptions tmin2_is_min.
