
(** val negb : bool -> bool **)

let negb = function
| true -> false
| false -> true

type nat =
| O
| S of nat

(** val option_map : ('a1 -> 'a2) -> 'a1 option -> 'a2 option **)

let option_map f = function
| Some a -> Some (f a)
| None -> None

(** val fst : ('a1 * 'a2) -> 'a1 **)

let fst = function
| (x, _) -> x

(** val snd : ('a1 * 'a2) -> 'a2 **)

let snd = function
| (_, y) -> y

(** val length : 'a1 list -> nat **)

let rec length = function
| [] -> O
| _ :: l' -> S (length l')

(** val app : 'a1 list -> 'a1 list -> 'a1 list **)

let rec app l m =
  match l with
  | [] -> m
  | a :: l1 -> a :: (app l1 m)

type comparison =
| Eq
| Lt
| Gt

(** val add : nat -> nat -> nat **)

let rec add n0 m =
  match n0 with
  | O -> m
  | S p -> S (add p m)

(** val mul : nat -> nat -> nat **)

let rec mul n0 m =
  match n0 with
  | O -> O
  | S p -> add m (mul p m)

(** val sub : nat -> nat -> nat **)

let rec sub n0 m =
  match n0 with
  | O -> n0
  | S k -> (match m with
            | O -> n0
            | S l -> sub k l)

type byte =
| X00
| X01
| X02
| X03
| X04
| X05
| X06
| X07
| X08
| X09
| X0a
| X0b
| X0c
| X0d
| X0e
| X0f
| X10
| X11
| X12
| X13
| X14
| X15
| X16
| X17
| X18
| X19
| X1a
| X1b
| X1c
| X1d
| X1e
| X1f
| X20
| X21
| X22
| X23
| X24
| X25
| X26
| X27
| X28
| X29
| X2a
| X2b
| X2c
| X2d
| X2e
| X2f
| X30
| X31
| X32
| X33
| X34
| X35
| X36
| X37
| X38
| X39
| X3a
| X3b
| X3c
| X3d
| X3e
| X3f
| X40
| X41
| X42
| X43
| X44
| X45
| X46
| X47
| X48
| X49
| X4a
| X4b
| X4c
| X4d
| X4e
| X4f
| X50
| X51
| X52
| X53
| X54
| X55
| X56
| X57
| X58
| X59
| X5a
| X5b
| X5c
| X5d
| X5e
| X5f
| X60
| X61
| X62
| X63
| X64
| X65
| X66
| X67
| X68
| X69
| X6a
| X6b
| X6c
| X6d
| X6e
| X6f
| X70
| X71
| X72
| X73
| X74
| X75
| X76
| X77
| X78
| X79
| X7a
| X7b
| X7c
| X7d
| X7e
| X7f
| X80
| X81
| X82
| X83
| X84
| X85
| X86
| X87
| X88
| X89
| X8a
| X8b
| X8c
| X8d
| X8e
| X8f
| X90
| X91
| X92
| X93
| X94
| X95
| X96
| X97
| X98
| X99
| X9a
| X9b
| X9c
| X9d
| X9e
| X9f
| Xa0
| Xa1
| Xa2
| Xa3
| Xa4
| Xa5
| Xa6
| Xa7
| Xa8
| Xa9
| Xaa
| Xab
| Xac
| Xad
| Xae
| Xaf
| Xb0
| Xb1
| Xb2
| Xb3
| Xb4
| Xb5
| Xb6
| Xb7
| Xb8
| Xb9
| Xba
| Xbb
| Xbc
| Xbd
| Xbe
| Xbf
| Xc0
| Xc1
| Xc2
| Xc3
| Xc4
| Xc5
| Xc6
| Xc7
| Xc8
| Xc9
| Xca
| Xcb
| Xcc
| Xcd
| Xce
| Xcf
| Xd0
| Xd1
| Xd2
| Xd3
| Xd4
| Xd5
| Xd6
| Xd7
| Xd8
| Xd9
| Xda
| Xdb
| Xdc
| Xdd
| Xde
| Xdf
| Xe0
| Xe1
| Xe2
| Xe3
| Xe4
| Xe5
| Xe6
| Xe7
| Xe8
| Xe9
| Xea
| Xeb
| Xec
| Xed
| Xee
| Xef
| Xf0
| Xf1
| Xf2
| Xf3
| Xf4
| Xf5
| Xf6
| Xf7
| Xf8
| Xf9
| Xfa
| Xfb
| Xfc
| Xfd
| Xfe
| Xff

(** val to_bits :
    byte -> bool * (bool * (bool * (bool * (bool * (bool * (bool * bool)))))) **)

let to_bits = function
| X00 -> (false, (false, (false, (false, (false, (false, (false, false)))))))
| X01 -> (true, (false, (false, (false, (false, (false, (false, false)))))))
| X02 -> (false, (true, (false, (false, (false, (false, (false, false)))))))
| X03 -> (true, (true, (false, (false, (false, (false, (false, false)))))))
| X04 -> (false, (false, (true, (false, (false, (false, (false, false)))))))
| X05 -> (true, (false, (true, (false, (false, (false, (false, false)))))))
| X06 -> (false, (true, (true, (false, (false, (false, (false, false)))))))
| X07 -> (true, (true, (true, (false, (false, (false, (false, false)))))))
| X08 -> (false, (false, (false, (true, (false, (false, (false, false)))))))
| X09 -> (true, (false, (false, (true, (false, (false, (false, false)))))))
| X0a -> (false, (true, (false, (true, (false, (false, (false, false)))))))
| X0b -> (true, (true, (false, (true, (false, (false, (false, false)))))))
| X0c -> (false, (false, (true, (true, (false, (false, (false, false)))))))
| X0d -> (true, (false, (true, (true, (false, (false, (false, false)))))))
| X0e -> (false, (true, (true, (true, (false, (false, (false, false)))))))
| X0f -> (true, (true, (true, (true, (false, (false, (false, false)))))))
| X10 -> (false, (false, (false, (false, (true, (false, (false, false)))))))
| X11 -> (true, (false, (false, (false, (true, (false, (false, false)))))))
| X12 -> (false, (true, (false, (false, (true, (false, (false, false)))))))
| X13 -> (true, (true, (false, (false, (true, (false, (false, false)))))))
| X14 -> (false, (false, (true, (false, (true, (false, (false, false)))))))
| X15 -> (true, (false, (true, (false, (true, (false, (false, false)))))))
| X16 -> (false, (true, (true, (false, (true, (false, (false, false)))))))
| X17 -> (true, (true, (true, (false, (true, (false, (false, false)))))))
| X18 -> (false, (false, (false, (true, (true, (false, (false, false)))))))
| X19 -> (true, (false, (false, (true, (true, (false, (false, false)))))))
| X1a -> (false, (true, (false, (true, (true, (false, (false, false)))))))
| X1b -> (true, (true, (false, (true, (true, (false, (false, false)))))))
| X1c -> (false, (false, (true, (true, (true, (false, (false, false)))))))
| X1d -> (true, (false, (true, (true, (true, (false, (false, false)))))))
| X1e -> (false, (true, (true, (true, (true, (false, (false, false)))))))
| X1f -> (true, (true, (true, (true, (true, (false, (false, false)))))))
| X20 -> (false, (false, (false, (false, (false, (true, (false, false)))))))
| X21 -> (true, (false, (false, (false, (false, (true, (false, false)))))))
| X22 -> (false, (true, (false, (false, (false, (true, (false, false)))))))
| X23 -> (true, (true, (false, (false, (false, (true, (false, false)))))))
| X24 -> (false, (false, (true, (false, (false, (true, (false, false)))))))
| X25 -> (true, (false, (true, (false, (false, (true, (false, false)))))))
| X26 -> (false, (true, (true, (false, (false, (true, (false, false)))))))
| X27 -> (true, (true, (true, (false, (false, (true, (false, false)))))))
| X28 -> (false, (false, (false, (true, (false, (true, (false, false)))))))
| X29 -> (true, (false, (false, (true, (false, (true, (false, false)))))))
| X2a -> (false, (true, (false, (true, (false, (true, (false, false)))))))
| X2b -> (true, (true, (false, (true, (false, (true, (false, false)))))))
| X2c -> (false, (false, (true, (true, (false, (true, (false, false)))))))
| X2d -> (true, (false, (true, (true, (false, (true, (false, false)))))))
| X2e -> (false, (true, (true, (true, (false, (true, (false, false)))))))
| X2f -> (true, (true, (true, (true, (false, (true, (false, false)))))))
| X30 -> (false, (false, (false, (false, (true, (true, (false, false)))))))
| X31 -> (true, (false, (false, (false, (true, (true, (false, false)))))))
| X32 -> (false, (true, (false, (false, (true, (true, (false, false)))))))
| X33 -> (true, (true, (false, (false, (true, (true, (false, false)))))))
| X34 -> (false, (false, (true, (false, (true, (true, (false, false)))))))
| X35 -> (true, (false, (true, (false, (true, (true, (false, false)))))))
| X36 -> (false, (true, (true, (false, (true, (true, (false, false)))))))
| X37 -> (true, (true, (true, (false, (true, (true, (false, false)))))))
| X38 -> (false, (false, (false, (true, (true, (true, (false, false)))))))
| X39 -> (true, (false, (false, (true, (true, (true, (false, false)))))))
| X3a -> (false, (true, (false, (true, (true, (true, (false, false)))))))
| X3b -> (true, (true, (false, (true, (true, (true, (false, false)))))))
| X3c -> (false, (false, (true, (true, (true, (true, (false, false)))))))
| X3d -> (true, (false, (true, (true, (true, (true, (false, false)))))))
| X3e -> (false, (true, (true, (true, (true, (true, (false, false)))))))
| X3f -> (true, (true, (true, (true, (true, (true, (false, false)))))))
| X40 -> (false, (false, (false, (false, (false, (false, (true, false)))))))
| X41 -> (true, (false, (false, (false, (false, (false, (true, false)))))))
| X42 -> (false, (true, (false, (false, (false, (false, (true, false)))))))
| X43 -> (true, (true, (false, (false, (false, (false, (true, false)))))))
| X44 -> (false, (false, (true, (false, (false, (false, (true, false)))))))
| X45 -> (true, (false, (true, (false, (false, (false, (true, false)))))))
| X46 -> (false, (true, (true, (false, (false, (false, (true, false)))))))
| X47 -> (true, (true, (true, (false, (false, (false, (true, false)))))))
| X48 -> (false, (false, (false, (true, (false, (false, (true, false)))))))
| X49 -> (true, (false, (false, (true, (false, (false, (true, false)))))))
| X4a -> (false, (true, (false, (true, (false, (false, (true, false)))))))
| X4b -> (true, (true, (false, (true, (false, (false, (true, false)))))))
| X4c -> (false, (false, (true, (true, (false, (false, (true, false)))))))
| X4d -> (true, (false, (true, (true, (false, (false, (true, false)))))))
| X4e -> (false, (true, (true, (true, (false, (false, (true, false)))))))
| X4f -> (true, (true, (true, (true, (false, (false, (true, false)))))))
| X50 -> (false, (false, (false, (false, (true, (false, (true, false)))))))
| X51 -> (true, (false, (false, (false, (true, (false, (true, false)))))))
| X52 -> (false, (true, (false, (false, (true, (false, (true, false)))))))
| X53 -> (true, (true, (false, (false, (true, (false, (true, false)))))))
| X54 -> (false, (false, (true, (false, (true, (false, (true, false)))))))
| X55 -> (true, (false, (true, (false, (true, (false, (true, false)))))))
| X56 -> (false, (true, (true, (false, (true, (false, (true, false)))))))
| X57 -> (true, (true, (true, (false, (true, (false, (true, false)))))))
| X58 -> (false, (false, (false, (true, (true, (false, (true, false)))))))
| X59 -> (true, (false, (false, (true, (true, (false, (true, false)))))))
| X5a -> (false, (true, (false, (true, (true, (false, (true, false)))))))
| X5b -> (true, (true, (false, (true, (true, (false, (true, false)))))))
| X5c -> (false, (false, (true, (true, (true, (false, (true, false)))))))
| X5d -> (true, (false, (true, (true, (true, (false, (true, false)))))))
| X5e -> (false, (true, (true, (true, (true, (false, (true, false)))))))
| X5f -> (true, (true, (true, (true, (true, (false, (true, false)))))))
| X60 -> (false, (false, (false, (false, (false, (true, (true, false)))))))
| X61 -> (true, (false, (false, (false, (false, (true, (true, false)))))))
| X62 -> (false, (true, (false, (false, (false, (true, (true, false)))))))
| X63 -> (true, (true, (false, (false, (false, (true, (true, false)))))))
| X64 -> (false, (false, (true, (false, (false, (true, (true, false)))))))
| X65 -> (true, (false, (true, (false, (false, (true, (true, false)))))))
| X66 -> (false, (true, (true, (false, (false, (true, (true, false)))))))
| X67 -> (true, (true, (true, (false, (false, (true, (true, false)))))))
| X68 -> (false, (false, (false, (true, (false, (true, (true, false)))))))
| X69 -> (true, (false, (false, (true, (false, (true, (true, false)))))))
| X6a -> (false, (true, (false, (true, (false, (true, (true, false)))))))
| X6b -> (true, (true, (false, (true, (false, (true, (true, false)))))))
| X6c -> (false, (false, (true, (true, (false, (true, (true, false)))))))
| X6d -> (true, (false, (true, (true, (false, (true, (true, false)))))))
| X6e -> (false, (true, (true, (true, (false, (true, (true, false)))))))
| X6f -> (true, (true, (true, (true, (false, (true, (true, false)))))))
| X70 -> (false, (false, (false, (false, (true, (true, (true, false)))))))
| X71 -> (true, (false, (false, (false, (true, (true, (true, false)))))))
| X72 -> (false, (true, (false, (false, (true, (true, (true, false)))))))
| X73 -> (true, (true, (false, (false, (true, (true, (true, false)))))))
| X74 -> (false, (false, (true, (false, (true, (true, (true, false)))))))
| X75 -> (true, (false, (true, (false, (true, (true, (true, false)))))))
| X76 -> (false, (true, (true, (false, (true, (true, (true, false)))))))
| X77 -> (true, (true, (true, (false, (true, (true, (true, false)))))))
| X78 -> (false, (false, (false, (true, (true, (true, (true, false)))))))
| X79 -> (true, (false, (false, (true, (true, (true, (true, false)))))))
| X7a -> (false, (true, (false, (true, (true, (true, (true, false)))))))
| X7b -> (true, (true, (false, (true, (true, (true, (true, false)))))))
| X7c -> (false, (false, (true, (true, (true, (true, (true, false)))))))
| X7d -> (true, (false, (true, (true, (true, (true, (true, false)))))))
| X7e -> (false, (true, (true, (true, (true, (true, (true, false)))))))
| X7f -> (true, (true, (true, (true, (true, (true, (true, false)))))))
| X80 -> (false, (false, (false, (false, (false, (false, (false, true)))))))
| X81 -> (true, (false, (false, (false, (false, (false, (false, true)))))))
| X82 -> (false, (true, (false, (false, (false, (false, (false, true)))))))
| X83 -> (true, (true, (false, (false, (false, (false, (false, true)))))))
| X84 -> (false, (false, (true, (false, (false, (false, (false, true)))))))
| X85 -> (true, (false, (true, (false, (false, (false, (false, true)))))))
| X86 -> (false, (true, (true, (false, (false, (false, (false, true)))))))
| X87 -> (true, (true, (true, (false, (false, (false, (false, true)))))))
| X88 -> (false, (false, (false, (true, (false, (false, (false, true)))))))
| X89 -> (true, (false, (false, (true, (false, (false, (false, true)))))))
| X8a -> (false, (true, (false, (true, (false, (false, (false, true)))))))
| X8b -> (true, (true, (false, (true, (false, (false, (false, true)))))))
| X8c -> (false, (false, (true, (true, (false, (false, (false, true)))))))
| X8d -> (true, (false, (true, (true, (false, (false, (false, true)))))))
| X8e -> (false, (true, (true, (true, (false, (false, (false, true)))))))
| X8f -> (true, (true, (true, (true, (false, (false, (false, true)))))))
| X90 -> (false, (false, (false, (false, (true, (false, (false, true)))))))
| X91 -> (true, (false, (false, (false, (true, (false, (false, true)))))))
| X92 -> (false, (true, (false, (false, (true, (false, (false, true)))))))
| X93 -> (true, (true, (false, (false, (true, (false, (false, true)))))))
| X94 -> (false, (false, (true, (false, (true, (false, (false, true)))))))
| X95 -> (true, (false, (true, (false, (true, (false, (false, true)))))))
| X96 -> (false, (true, (true, (false, (true, (false, (false, true)))))))
| X97 -> (true, (true, (true, (false, (true, (false, (false, true)))))))
| X98 -> (false, (false, (false, (true, (true, (false, (false, true)))))))
| X99 -> (true, (false, (false, (true, (true, (false, (false, true)))))))
| X9a -> (false, (true, (false, (true, (true, (false, (false, true)))))))
| X9b -> (true, (true, (false, (true, (true, (false, (false, true)))))))
| X9c -> (false, (false, (true, (true, (true, (false, (false, true)))))))
| X9d -> (true, (false, (true, (true, (true, (false, (false, true)))))))
| X9e -> (false, (true, (true, (true, (true, (false, (false, true)))))))
| X9f -> (true, (true, (true, (true, (true, (false, (false, true)))))))
| Xa0 -> (false, (false, (false, (false, (false, (true, (false, true)))))))
| Xa1 -> (true, (false, (false, (false, (false, (true, (false, true)))))))
| Xa2 -> (false, (true, (false, (false, (false, (true, (false, true)))))))
| Xa3 -> (true, (true, (false, (false, (false, (true, (false, true)))))))
| Xa4 -> (false, (false, (true, (false, (false, (true, (false, true)))))))
| Xa5 -> (true, (false, (true, (false, (false, (true, (false, true)))))))
| Xa6 -> (false, (true, (true, (false, (false, (true, (false, true)))))))
| Xa7 -> (true, (true, (true, (false, (false, (true, (false, true)))))))
| Xa8 -> (false, (false, (false, (true, (false, (true, (false, true)))))))
| Xa9 -> (true, (false, (false, (true, (false, (true, (false, true)))))))
| Xaa -> (false, (true, (false, (true, (false, (true, (false, true)))))))
| Xab -> (true, (true, (false, (true, (false, (true, (false, true)))))))
| Xac -> (false, (false, (true, (true, (false, (true, (false, true)))))))
| Xad -> (true, (false, (true, (true, (false, (true, (false, true)))))))
| Xae -> (false, (true, (true, (true, (false, (true, (false, true)))))))
| Xaf -> (true, (true, (true, (true, (false, (true, (false, true)))))))
| Xb0 -> (false, (false, (false, (false, (true, (true, (false, true)))))))
| Xb1 -> (true, (false, (false, (false, (true, (true, (false, true)))))))
| Xb2 -> (false, (true, (false, (false, (true, (true, (false, true)))))))
| Xb3 -> (true, (true, (false, (false, (true, (true, (false, true)))))))
| Xb4 -> (false, (false, (true, (false, (true, (true, (false, true)))))))
| Xb5 -> (true, (false, (true, (false, (true, (true, (false, true)))))))
| Xb6 -> (false, (true, (true, (false, (true, (true, (false, true)))))))
| Xb7 -> (true, (true, (true, (false, (true, (true, (false, true)))))))
| Xb8 -> (false, (false, (false, (true, (true, (true, (false, true)))))))
| Xb9 -> (true, (false, (false, (true, (true, (true, (false, true)))))))
| Xba -> (false, (true, (false, (true, (true, (true, (false, true)))))))
| Xbb -> (true, (true, (false, (true, (true, (true, (false, true)))))))
| Xbc -> (false, (false, (true, (true, (true, (true, (false, true)))))))
| Xbd -> (true, (false, (true, (true, (true, (true, (false, true)))))))
| Xbe -> (false, (true, (true, (true, (true, (true, (false, true)))))))
| Xbf -> (true, (true, (true, (true, (true, (true, (false, true)))))))
| Xc0 -> (false, (false, (false, (false, (false, (false, (true, true)))))))
| Xc1 -> (true, (false, (false, (false, (false, (false, (true, true)))))))
| Xc2 -> (false, (true, (false, (false, (false, (false, (true, true)))))))
| Xc3 -> (true, (true, (false, (false, (false, (false, (true, true)))))))
| Xc4 -> (false, (false, (true, (false, (false, (false, (true, true)))))))
| Xc5 -> (true, (false, (true, (false, (false, (false, (true, true)))))))
| Xc6 -> (false, (true, (true, (false, (false, (false, (true, true)))))))
| Xc7 -> (true, (true, (true, (false, (false, (false, (true, true)))))))
| Xc8 -> (false, (false, (false, (true, (false, (false, (true, true)))))))
| Xc9 -> (true, (false, (false, (true, (false, (false, (true, true)))))))
| Xca -> (false, (true, (false, (true, (false, (false, (true, true)))))))
| Xcb -> (true, (true, (false, (true, (false, (false, (true, true)))))))
| Xcc -> (false, (false, (true, (true, (false, (false, (true, true)))))))
| Xcd -> (true, (false, (true, (true, (false, (false, (true, true)))))))
| Xce -> (false, (true, (true, (true, (false, (false, (true, true)))))))
| Xcf -> (true, (true, (true, (true, (false, (false, (true, true)))))))
| Xd0 -> (false, (false, (false, (false, (true, (false, (true, true)))))))
| Xd1 -> (true, (false, (false, (false, (true, (false, (true, true)))))))
| Xd2 -> (false, (true, (false, (false, (true, (false, (true, true)))))))
| Xd3 -> (true, (true, (false, (false, (true, (false, (true, true)))))))
| Xd4 -> (false, (false, (true, (false, (true, (false, (true, true)))))))
| Xd5 -> (true, (false, (true, (false, (true, (false, (true, true)))))))
| Xd6 -> (false, (true, (true, (false, (true, (false, (true, true)))))))
| Xd7 -> (true, (true, (true, (false, (true, (false, (true, true)))))))
| Xd8 -> (false, (false, (false, (true, (true, (false, (true, true)))))))
| Xd9 -> (true, (false, (false, (true, (true, (false, (true, true)))))))
| Xda -> (false, (true, (false, (true, (true, (false, (true, true)))))))
| Xdb -> (true, (true, (false, (true, (true, (false, (true, true)))))))
| Xdc -> (false, (false, (true, (true, (true, (false, (true, true)))))))
| Xdd -> (true, (false, (true, (true, (true, (false, (true, true)))))))
| Xde -> (false, (true, (true, (true, (true, (false, (true, true)))))))
| Xdf -> (true, (true, (true, (true, (true, (false, (true, true)))))))
| Xe0 -> (false, (false, (false, (false, (false, (true, (true, true)))))))
| Xe1 -> (true, (false, (false, (false, (false, (true, (true, true)))))))
| Xe2 -> (false, (true, (false, (false, (false, (true, (true, true)))))))
| Xe3 -> (true, (true, (false, (false, (false, (true, (true, true)))))))
| Xe4 -> (false, (false, (true, (false, (false, (true, (true, true)))))))
| Xe5 -> (true, (false, (true, (false, (false, (true, (true, true)))))))
| Xe6 -> (false, (true, (true, (false, (false, (true, (true, true)))))))
| Xe7 -> (true, (true, (true, (false, (false, (true, (true, true)))))))
| Xe8 -> (false, (false, (false, (true, (false, (true, (true, true)))))))
| Xe9 -> (true, (false, (false, (true, (false, (true, (true, true)))))))
| Xea -> (false, (true, (false, (true, (false, (true, (true, true)))))))
| Xeb -> (true, (true, (false, (true, (false, (true, (true, true)))))))
| Xec -> (false, (false, (true, (true, (false, (true, (true, true)))))))
| Xed -> (true, (false, (true, (true, (false, (true, (true, true)))))))
| Xee -> (false, (true, (true, (true, (false, (true, (true, true)))))))
| Xef -> (true, (true, (true, (true, (false, (true, (true, true)))))))
| Xf0 -> (false, (false, (false, (false, (true, (true, (true, true)))))))
| Xf1 -> (true, (false, (false, (false, (true, (true, (true, true)))))))
| Xf2 -> (false, (true, (false, (false, (true, (true, (true, true)))))))
| Xf3 -> (true, (true, (false, (false, (true, (true, (true, true)))))))
| Xf4 -> (false, (false, (true, (false, (true, (true, (true, true)))))))
| Xf5 -> (true, (false, (true, (false, (true, (true, (true, true)))))))
| Xf6 -> (false, (true, (true, (false, (true, (true, (true, true)))))))
| Xf7 -> (true, (true, (true, (false, (true, (true, (true, true)))))))
| Xf8 -> (false, (false, (false, (true, (true, (true, (true, true)))))))
| Xf9 -> (true, (false, (false, (true, (true, (true, (true, true)))))))
| Xfa -> (false, (true, (false, (true, (true, (true, (true, true)))))))
| Xfb -> (true, (true, (false, (true, (true, (true, (true, true)))))))
| Xfc -> (false, (false, (true, (true, (true, (true, (true, true)))))))
| Xfd -> (true, (false, (true, (true, (true, (true, (true, true)))))))
| Xfe -> (false, (true, (true, (true, (true, (true, (true, true)))))))
| Xff -> (true, (true, (true, (true, (true, (true, (true, true)))))))

(** val eqb : bool -> bool -> bool **)

let eqb b1 b2 =
  if b1 then b2 else if b2 then false else true

module Nat =
 struct
  (** val sub : nat -> nat -> nat **)

  let rec sub n0 m =
    match n0 with
    | O -> n0
    | S k -> (match m with
              | O -> n0
              | S l -> sub k l)

  (** val eqb : nat -> nat -> bool **)

  let rec eqb n0 m =
    match n0 with
    | O -> (match m with
            | O -> true
            | S _ -> false)
    | S n' -> (match m with
               | O -> false
               | S m' -> eqb n' m')

  (** val leb : nat -> nat -> bool **)

  let rec leb n0 m =
    match n0 with
    | O -> true
    | S n' -> (match m with
               | O -> false
               | S m' -> leb n' m')

  (** val ltb : nat -> nat -> bool **)

  let ltb n0 m =
    leb (S n0) m

  (** val compare : nat -> nat -> comparison **)

  let rec compare n0 m =
    match n0 with
    | O -> (match m with
            | O -> Eq
            | S _ -> Lt)
    | S n' -> (match m with
               | O -> Gt
               | S m' -> compare n' m')

  (** val max : nat -> nat -> nat **)

  let rec max n0 m =
    match n0 with
    | O -> m
    | S n' -> (match m with
               | O -> n0
               | S m' -> S (max n' m'))

  (** val min : nat -> nat -> nat **)

  let rec min n0 m =
    match n0 with
    | O -> O
    | S n' -> (match m with
               | O -> O
               | S m' -> S (min n' m'))

  (** val divmod : nat -> nat -> nat -> nat -> nat * nat **)

  let rec divmod x y q u =
    match x with
    | O -> (q, u)
    | S x' ->
      (match u with
       | O -> divmod x' y (S q) y
       | S u' -> divmod x' y q u')

  (** val div : nat -> nat -> nat **)

  let div x y = match y with
  | O -> y
  | S y' -> fst (divmod x y' O y')

  (** val modulo : nat -> nat -> nat **)

  let modulo x = function
  | O -> x
  | S y' -> sub y' (snd (divmod x y' O y'))
 end

(** val hd : 'a1 -> 'a1 list -> 'a1 **)

let hd default = function
| [] -> default
| x :: _ -> x

(** val tl : 'a1 list -> 'a1 list **)

let tl = function
| [] -> []
| _ :: m -> m

(** val nth : nat -> 'a1 list -> 'a1 -> 'a1 **)

let rec nth n0 l default =
  match n0 with
  | O -> (match l with
          | [] -> default
          | x :: _ -> x)
  | S m -> (match l with
            | [] -> default
            | _ :: t -> nth m t default)

(** val nth_error : 'a1 list -> nat -> 'a1 option **)

let rec nth_error l = function
| O -> (match l with
        | [] -> None
        | x :: _ -> Some x)
| S n1 -> (match l with
           | [] -> None
           | _ :: l0 -> nth_error l0 n1)

(** val map : ('a1 -> 'a2) -> 'a1 list -> 'a2 list **)

let rec map f = function
| [] -> []
| a :: t -> (f a) :: (map f t)

(** val flat_map : ('a1 -> 'a2 list) -> 'a1 list -> 'a2 list **)

let rec flat_map f = function
| [] -> []
| x :: t -> app (f x) (flat_map f t)

(** val fold_left : ('a1 -> 'a2 -> 'a1) -> 'a2 list -> 'a1 -> 'a1 **)

let rec fold_left f l a0 =
  match l with
  | [] -> a0
  | b :: t -> fold_left f t (f a0 b)

(** val filter : ('a1 -> bool) -> 'a1 list -> 'a1 list **)

let rec filter f = function
| [] -> []
| x :: l0 -> if f x then x :: (filter f l0) else filter f l0

(** val combine : 'a1 list -> 'a2 list -> ('a1 * 'a2) list **)

let rec combine l l' =
  match l with
  | [] -> []
  | x :: tl0 ->
    (match l' with
     | [] -> []
     | y :: tl' -> (x, y) :: (combine tl0 tl'))

(** val firstn : nat -> 'a1 list -> 'a1 list **)

let rec firstn n0 l =
  match n0 with
  | O -> []
  | S n1 -> (match l with
             | [] -> []
             | a :: l0 -> a :: (firstn n1 l0))

(** val skipn : nat -> 'a1 list -> 'a1 list **)

let rec skipn n0 l =
  match n0 with
  | O -> l
  | S n1 -> (match l with
             | [] -> []
             | _ :: l0 -> skipn n1 l0)

(** val repeat : 'a1 -> nat -> 'a1 list **)

let rec repeat x = function
| O -> []
| S k -> x :: (repeat x k)

type positive =
| XI of positive
| XO of positive
| XH

type n =
| N0
| Npos of positive

module Pos =
 struct
  (** val succ : positive -> positive **)

  let rec succ = function
  | XI p -> XO (succ p)
  | XO p -> XI p
  | XH -> XO XH

  (** val compare_cont : comparison -> positive -> positive -> comparison **)

  let rec compare_cont r x y =
    match x with
    | XI p ->
      (match y with
       | XI q -> compare_cont r p q
       | XO q -> compare_cont Gt p q
       | XH -> Gt)
    | XO p ->
      (match y with
       | XI q -> compare_cont Lt p q
       | XO q -> compare_cont r p q
       | XH -> Gt)
    | XH -> (match y with
             | XH -> r
             | _ -> Lt)

  (** val compare : positive -> positive -> comparison **)

  let compare =
    compare_cont Eq

  (** val iter_op : ('a1 -> 'a1 -> 'a1) -> positive -> 'a1 -> 'a1 **)

  let rec iter_op op p a =
    match p with
    | XI p0 -> op a (iter_op op p0 (op a a))
    | XO p0 -> iter_op op p0 (op a a)
    | XH -> a

  (** val to_nat : positive -> nat **)

  let to_nat x =
    iter_op add x (S O)

  (** val of_succ_nat : nat -> positive **)

  let rec of_succ_nat = function
  | O -> XH
  | S x -> succ (of_succ_nat x)
 end

module N =
 struct
  (** val compare : n -> n -> comparison **)

  let compare n0 m =
    match n0 with
    | N0 -> (match m with
             | N0 -> Eq
             | Npos _ -> Lt)
    | Npos n' -> (match m with
                  | N0 -> Gt
                  | Npos m' -> Pos.compare n' m')

  (** val ltb : n -> n -> bool **)

  let ltb x y =
    match compare x y with
    | Lt -> true
    | _ -> false

  (** val to_nat : n -> nat **)

  let to_nat = function
  | N0 -> O
  | Npos p -> Pos.to_nat p

  (** val of_nat : nat -> n **)

  let of_nat = function
  | O -> N0
  | S n' -> Npos (Pos.of_succ_nat n')
 end

(** val eqb0 : byte -> byte -> bool **)

let eqb0 a b =
  let (a0, p) = to_bits a in
  let (a1, p0) = p in
  let (a2, p1) = p0 in
  let (a3, p2) = p1 in
  let (a4, p3) = p2 in
  let (a5, p4) = p3 in
  let (a6, a7) = p4 in
  let (b0, p5) = to_bits b in
  let (b1, p6) = p5 in
  let (b2, p7) = p6 in
  let (b3, p8) = p7 in
  let (b4, p9) = p8 in
  let (b5, p10) = p9 in
  let (b6, b7) = p10 in
  (&&)
    ((&&)
      ((&&)
        ((&&)
          ((&&) ((&&) ((&&) (eqb a0 b0) (eqb a1 b1)) (eqb a2 b2)) (eqb a3 b3))
          (eqb a4 b4)) (eqb a5 b5)) (eqb a6 b6)) (eqb a7 b7)

(** val to_nat0 : byte -> nat **)

let to_nat0 = function
| X00 -> O
| X01 -> S O
| X02 -> S (S O)
| X03 -> S (S (S O))
| X04 -> S (S (S (S O)))
| X05 -> S (S (S (S (S O))))
| X06 -> S (S (S (S (S (S O)))))
| X07 -> S (S (S (S (S (S (S O))))))
| X08 -> S (S (S (S (S (S (S (S O)))))))
| X09 -> S (S (S (S (S (S (S (S (S O))))))))
| X0a -> S (S (S (S (S (S (S (S (S (S O)))))))))
| X0b -> S (S (S (S (S (S (S (S (S (S (S O))))))))))
| X0c -> S (S (S (S (S (S (S (S (S (S (S (S O)))))))))))
| X0d -> S (S (S (S (S (S (S (S (S (S (S (S (S O))))))))))))
| X0e -> S (S (S (S (S (S (S (S (S (S (S (S (S (S O)))))))))))))
| X0f -> S (S (S (S (S (S (S (S (S (S (S (S (S (S (S O))))))))))))))
| X10 -> S (S (S (S (S (S (S (S (S (S (S (S (S (S (S (S O)))))))))))))))
| X11 -> S (S (S (S (S (S (S (S (S (S (S (S (S (S (S (S (S O))))))))))))))))
| X12 ->
  S (S (S (S (S (S (S (S (S (S (S (S (S (S (S (S (S (S O)))))))))))))))))
| X13 ->
  S (S (S (S (S (S (S (S (S (S (S (S (S (S (S (S (S (S (S O))))))))))))))))))
| X14 ->
  S (S (S (S (S (S (S (S (S (S (S (S (S (S (S (S (S (S (S (S
    O)))))))))))))))))))
| X15 ->
  S (S (S (S (S (S (S (S (S (S (S (S (S (S (S (S (S (S (S (S (S
    O))))))))))))))))))))
| X16 ->
  S (S (S (S (S (S (S (S (S (S (S (S (S (S (S (S (S (S (S (S (S (S
    O)))))))))))))))))))))
| X17 ->
  S (S (S (S (S (S (S (S (S (S (S (S (S (S (S (S (S (S (S (S (S (S (S
    O))))))))))))))))))))))
| X18 ->
  S (S (S (S (S (S (S (S (S (S (S (S (S (S (S (S (S (S (S (S (S (S (S (S
    O)))))))))))))))))))))))
| X19 ->
  S (S (S (S (S (S (S (S (S (S (S (S (S (S (S (S (S (S (S (S (S (S (S (S (S
    O))))))))))))))))))))))))
| X1a ->
  S (S (S (S (S (S (S (S (S (S (S (S (S (S (S (S (S (S (S (S (S (S (S (S (S
    (S O)))))))))))))))))))))))))
| X1b ->
  S (S (S (S (S (S (S (S (S (S (S (S (S (S (S (S (S (S (S (S (S (S (S (S (S
    (S (S O))))))))))))))))))))))))))
| X1c ->
  S (S (S (S (S (S (S (S (S (S (S (S (S (S (S (S (S (S (S (S (S (S (S (S (S
    (S (S (S O)))))))))))))))))))))))))))
| X1d ->
  S (S (S (S (S (S (S (S (S (S (S (S (S (S (S (S (S (S (S (S (S (S (S (S (S
    (S (S (S (S O))))))))))))))))))))))))))))
| X1e ->
  S (S (S (S (S (S (S (S (S (S (S (S (S (S (S (S (S (S (S (S (S (S (S (S (S
    (S (S (S (S (S O)))))))))))))))))))))))))))))
| X1f ->
  S (S (S (S (S (S (S (S (S (S (S (S (S (S (S (S (S (S (S (S (S (S (S (S (S
    (S (S (S (S (S (S O))))))))))))))))))))))))))))))
| X20 ->
  S (S (S (S (S (S (S (S (S (S (S (S (S (S (S (S (S (S (S (S (S (S (S (S (S
    (S (S (S (S (S (S (S O)))))))))))))))))))))))))))))))
| X21 ->
  S (S (S (S (S (S (S (S (S (S (S (S (S (S (S (S (S (S (S (S (S (S (S (S (S
    (S (S (S (S (S (S (S (S O))))))))))))))))))))))))))))))))
| X22 ->
  S (S (S (S (S (S (S (S (S (S (S (S (S (S (S (S (S (S (S (S (S (S (S (S (S
    (S (S (S (S (S (S (S (S (S O)))))))))))))))))))))))))))))))))
| X23 ->
  S (S (S (S (S (S (S (S (S (S (S (S (S (S (S (S (S (S (S (S (S (S (S (S (S
    (S (S (S (S (S (S (S (S (S (S O))))))))))))))))))))))))))))))))))
| X24 ->
  S (S (S (S (S (S (S (S (S (S (S (S (S (S (S (S (S (S (S (S (S (S (S (S (S
    (S (S (S (S (S (S (S (S (S (S (S O)))))))))))))))))))))))))))))))))))
| X25 ->
  S (S (S (S (S (S (S (S (S (S (S (S (S (S (S (S (S (S (S (S (S (S (S (S (S
    (S (S (S (S (S (S (S (S (S (S (S (S O))))))))))))))))))))))))))))))))))))
| X26 ->
  S (S (S (S (S (S (S (S (S (S (S (S (S (S (S (S (S (S (S (S (S (S (S (S (S
    (S (S (S (S (S (S (S (S (S (S (S (S (S
    O)))))))))))))))))))))))))))))))))))))
| X27 ->
  S (S (S (S (S (S (S (S (S (S (S (S (S (S (S (S (S (S (S (S (S (S (S (S (S
    (S (S (S (S (S (S (S (S (S (S (S (S (S (S
    O))))))))))))))))))))))))))))))))))))))
| X28 ->
  S (S (S (S (S (S (S (S (S (S (S (S (S (S (S (S (S (S (S (S (S (S (S (S (S
    (S (S (S (S (S (S (S (S (S (S (S (S (S (S (S
    O)))))))))))))))))))))))))))))))))))))))
| X29 ->
  S (S (S (S (S (S (S (S (S (S (S (S (S (S (S (S (S (S (S (S (S (S (S (S (S
    (S (S (S (S (S (S (S (S (S (S (S (S (S (S (S (S
    O))))))))))))))))))))))))))))))))))))))))
| X2a ->
  S (S (S (S (S (S (S (S (S (S (S (S (S (S (S (S (S (S (S (S (S (S (S (S (S
    (S (S (S (S (S (S (S (S (S (S (S (S (S (S (S (S (S
    O)))))))))))))))))))))))))))))))))))))))))
| X2b ->
  S (S (S (S (S (S (S (S (S (S (S (S (S (S (S (S (S (S (S (S (S (S (S (S (S
    (S (S (S (S (S (S (S (S (S (S (S (S (S (S (S (S (S (S
    O))))))))))))))))))))))))))))))))))))))))))
| X2c ->
  S (S (S (S (S (S (S (S (S (S (S (S (S (S (S (S (S (S (S (S (S (S (S (S (S
    (S (S (S (S (S (S (S (S (S (S (S (S (S (S (S (S (S (S (S
    O)))))))))))))))))))))))))))))))))))))))))))
| X2d ->
  S (S (S (S (S (S (S (S (S (S (S (S (S (S (S (S (S (S (S (S (S (S (S (S (S
    (S (S (S (S (S (S (S (S (S (S (S (S (S (S (S (S (S (S (S (S
    O))))))))))))))))))))))))))))))))))))))))))))
| X2e ->
  S (S (S (S (S (S (S (S (S (S (S (S (S (S (S (S (S (S (S (S (S (S (S (S (S
    (S (S (S (S (S (S (S (S (S (S (S (S (S (S (S (S (S (S (S (S (S
    O)))))))))))))))))))))))))))))))))))))))))))))
| X2f ->
  S (S (S (S (S (S (S (S (S (S (S (S (S (S (S (S (S (S (S (S (S (S (S (S (S
    (S (S (S (S (S (S (S (S (S (S (S (S (S (S (S (S (S (S (S (S (S (S
    O))))))))))))))))))))))))))))))))))))))))))))))
| X30 ->
  S (S (S (S (S (S (S (S (S (S (S (S (S (S (S (S (S (S (S (S (S (S (S (S (S
    (S (S (S (S (S (S (S (S (S (S (S (S (S (S (S (S (S (S (S (S (S (S (S
    O)))))))))))))))))))))))))))))))))))))))))))))))
| X31 ->
  S (S (S (S (S (S (S (S (S (S (S (S (S (S (S (S (S (S (S (S (S (S (S (S (S
    (S (S (S (S (S (S (S (S (S (S (S (S (S (S (S (S (S (S (S (S (S (S (S (S
    O))))))))))))))))))))))))))))))))))))))))))))))))
| X32 ->
  S (S (S (S (S (S (S (S (S (S (S (S (S (S (S (S (S (S (S (S (S (S (S (S (S
    (S (S (S (S (S (S (S (S (S (S (S (S (S (S (S (S (S (S (S (S (S (S (S (S
    (S O)))))))))))))))))))))))))))))))))))))))))))))))))
| X33 ->
  S (S (S (S (S (S (S (S (S (S (S (S (S (S (S (S (S (S (S (S (S (S (S (S (S
    (S (S (S (S (S (S (S (S (S (S (S (S (S (S (S (S (S (S (S (S (S (S (S (S
    (S (S O))))))))))))))))))))))))))))))))))))))))))))))))))
| X34 ->
  S (S (S (S (S (S (S (S (S (S (S (S (S (S (S (S (S (S (S (S (S (S (S (S (S
    (S (S (S (S (S (S (S (S (S (S (S (S (S (S (S (S (S (S (S (S (S (S (S (S
    (S (S (S O)))))))))))))))))))))))))))))))))))))))))))))))))))
| X35 ->
  S (S (S (S (S (S (S (S (S (S (S (S (S (S (S (S (S (S (S (S (S (S (S (S (S
    (S (S (S (S (S (S (S (S (S (S (S (S (S (S (S (S (S (S (S (S (S (S (S (S
    (S (S (S (S O))))))))))))))))))))))))))))))))))))))))))))))))))))
| X36 ->
  S (S (S (S (S (S (S (S (S (S (S (S (S (S (S (S (S (S (S (S (S (S (S (S (S
    (S (S (S (S (S (S (S (S (S (S (S (S (S (S (S (S (S (S (S (S (S (S (S (S
    (S (S (S (S (S O)))))))))))))))))))))))))))))))))))))))))))))))))))))
| X37 ->
  S (S (S (S (S (S (S (S (S (S (S (S (S (S (S (S (S (S (S (S (S (S (S (S (S
    (S (S (S (S (S (S (S (S (S (S (S (S (S (S (S (S (S (S (S (S (S (S (S (S
    (S (S (S (S (S (S O))))))))))))))))))))))))))))))))))))))))))))))))))))))
| X38 ->
  S (S (S (S (S (S (S (S (S (S (S (S (S (S (S (S (S (S (S (S (S (S (S (S (S
    (S (S (S (S (S (S (S (S (S (S (S (S (S (S (S (S (S (S (S (S (S (S (S (S
    (S (S (S (S (S (S (S
    O)))))))))))))))))))))))))))))))))))))))))))))))))))))))
| X39 ->
  S (S (S (S (S (S (S (S (S (S (S (S (S (S (S (S (S (S (S (S (S (S (S (S (S
    (S (S (S (S (S (S (S (S (S (S (S (S (S (S (S (S (S (S (S (S (S (S (S (S
    (S (S (S (S (S (S (S (S
    O))))))))))))))))))))))))))))))))))))))))))))))))))))))))
| X3a ->
  S (S (S (S (S (S (S (S (S (S (S (S (S (S (S (S (S (S (S (S (S (S (S (S (S
    (S (S (S (S (S (S (S (S (S (S (S (S (S (S (S (S (S (S (S (S (S (S (S (S
    (S (S (S (S (S (S (S (S (S
    O)))))))))))))))))))))))))))))))))))))))))))))))))))))))))
| X3b ->
  S (S (S (S (S (S (S (S (S (S (S (S (S (S (S (S (S (S (S (S (S (S (S (S (S
    (S (S (S (S (S (S (S (S (S (S (S (S (S (S (S (S (S (S (S (S (S (S (S (S
    (S (S (S (S (S (S (S (S (S (S
    O))))))))))))))))))))))))))))))))))))))))))))))))))))))))))
| X3c ->
  S (S (S (S (S (S (S (S (S (S (S (S (S (S (S (S (S (S (S (S (S (S (S (S (S
    (S (S (S (S (S (S (S (S (S (S (S (S (S (S (S (S (S (S (S (S (S (S (S (S
    (S (S (S (S (S (S (S (S (S (S (S
    O)))))))))))))))))))))))))))))))))))))))))))))))))))))))))))
| X3d ->
  S (S (S (S (S (S (S (S (S (S (S (S (S (S (S (S (S (S (S (S (S (S (S (S (S
    (S (S (S (S (S (S (S (S (S (S (S (S (S (S (S (S (S (S (S (S (S (S (S (S
    (S (S (S (S (S (S (S (S (S (S (S (S
    O))))))))))))))))))))))))))))))))))))))))))))))))))))))))))))
| X3e ->
  S (S (S (S (S (S (S (S (S (S (S (S (S (S (S (S (S (S (S (S (S (S (S (S (S
    (S (S (S (S (S (S (S (S (S (S (S (S (S (S (S (S (S (S (S (S (S (S (S (S
    (S (S (S (S (S (S (S (S (S (S (S (S (S
    O)))))))))))))))))))))))))))))))))))))))))))))))))))))))))))))
| X3f ->
  S (S (S (S (S (S (S (S (S (S (S (S (S (S (S (S (S (S (S (S (S (S (S (S (S
    (S (S (S (S (S (S (S (S (S (S (S (S (S (S (S (S (S (S (S (S (S (S (S (S
    (S (S (S (S (S (S (S (S (S (S (S (S (S (S
    O))))))))))))))))))))))))))))))))))))))))))))))))))))))))))))))
| X40 ->
  S (S (S (S (S (S (S (S (S (S (S (S (S (S (S (S (S (S (S (S (S (S (S (S (S
    (S (S (S (S (S (S (S (S (S (S (S (S (S (S (S (S (S (S (S (S (S (S (S (S
    (S (S (S (S (S (S (S (S (S (S (S (S (S (S (S
    O)))))))))))))))))))))))))))))))))))))))))))))))))))))))))))))))
| X41 ->
  S (S (S (S (S (S (S (S (S (S (S (S (S (S (S (S (S (S (S (S (S (S (S (S (S
    (S (S (S (S (S (S (S (S (S (S (S (S (S (S (S (S (S (S (S (S (S (S (S (S
    (S (S (S (S (S (S (S (S (S (S (S (S (S (S (S (S
    O))))))))))))))))))))))))))))))))))))))))))))))))))))))))))))))))
| X42 ->
  S (S (S (S (S (S (S (S (S (S (S (S (S (S (S (S (S (S (S (S (S (S (S (S (S
    (S (S (S (S (S (S (S (S (S (S (S (S (S (S (S (S (S (S (S (S (S (S (S (S
    (S (S (S (S (S (S (S (S (S (S (S (S (S (S (S (S (S
    O)))))))))))))))))))))))))))))))))))))))))))))))))))))))))))))))))
| X43 ->
  S (S (S (S (S (S (S (S (S (S (S (S (S (S (S (S (S (S (S (S (S (S (S (S (S
    (S (S (S (S (S (S (S (S (S (S (S (S (S (S (S (S (S (S (S (S (S (S (S (S
    (S (S (S (S (S (S (S (S (S (S (S (S (S (S (S (S (S (S
    O))))))))))))))))))))))))))))))))))))))))))))))))))))))))))))))))))
| X44 ->
  S (S (S (S (S (S (S (S (S (S (S (S (S (S (S (S (S (S (S (S (S (S (S (S (S
    (S (S (S (S (S (S (S (S (S (S (S (S (S (S (S (S (S (S (S (S (S (S (S (S
    (S (S (S (S (S (S (S (S (S (S (S (S (S (S (S (S (S (S (S
    O)))))))))))))))))))))))))))))))))))))))))))))))))))))))))))))))))))
| X45 ->
  S (S (S (S (S (S (S (S (S (S (S (S (S (S (S (S (S (S (S (S (S (S (S (S (S
    (S (S (S (S (S (S (S (S (S (S (S (S (S (S (S (S (S (S (S (S (S (S (S (S
    (S (S (S (S (S (S (S (S (S (S (S (S (S (S (S (S (S (S (S (S
    O))))))))))))))))))))))))))))))))))))))))))))))))))))))))))))))))))))
| X46 ->
  S (S (S (S (S (S (S (S (S (S (S (S (S (S (S (S (S (S (S (S (S (S (S (S (S
    (S (S (S (S (S (S (S (S (S (S (S (S (S (S (S (S (S (S (S (S (S (S (S (S
    (S (S (S (S (S (S (S (S (S (S (S (S (S (S (S (S (S (S (S (S (S
    O)))))))))))))))))))))))))))))))))))))))))))))))))))))))))))))))))))))
| X47 ->
  S (S (S (S (S (S (S (S (S (S (S (S (S (S (S (S (S (S (S (S (S (S (S (S (S
    (S (S (S (S (S (S (S (S (S (S (S (S (S (S (S (S (S (S (S (S (S (S (S (S
    (S (S (S (S (S (S (S (S (S (S (S (S (S (S (S (S (S (S (S (S (S (S
    O))))))))))))))))))))))))))))))))))))))))))))))))))))))))))))))))))))))
| X48 ->
  S (S (S (S (S (S (S (S (S (S (S (S (S (S (S (S (S (S (S (S (S (S (S (S (S
    (S (S (S (S (S (S (S (S (S (S (S (S (S (S (S (S (S (S (S (S (S (S (S (S
    (S (S (S (S (S (S (S (S (S (S (S (S (S (S (S (S (S (S (S (S (S (S (S
    O)))))))))))))))))))))))))))))))))))))))))))))))))))))))))))))))))))))))
| X49 ->
  S (S (S (S (S (S (S (S (S (S (S (S (S (S (S (S (S (S (S (S (S (S (S (S (S
    (S (S (S (S (S (S (S (S (S (S (S (S (S (S (S (S (S (S (S (S (S (S (S (S
    (S (S (S (S (S (S (S (S (S (S (S (S (S (S (S (S (S (S (S (S (S (S (S (S
    O))))))))))))))))))))))))))))))))))))))))))))))))))))))))))))))))))))))))
| X4a ->
  S (S (S (S (S (S (S (S (S (S (S (S (S (S (S (S (S (S (S (S (S (S (S (S (S
    (S (S (S (S (S (S (S (S (S (S (S (S (S (S (S (S (S (S (S (S (S (S (S (S
    (S (S (S (S (S (S (S (S (S (S (S (S (S (S (S (S (S (S (S (S (S (S (S (S
    (S
    O)))))))))))))))))))))))))))))))))))))))))))))))))))))))))))))))))))))))))
| X4b ->
  S (S (S (S (S (S (S (S (S (S (S (S (S (S (S (S (S (S (S (S (S (S (S (S (S
    (S (S (S (S (S (S (S (S (S (S (S (S (S (S (S (S (S (S (S (S (S (S (S (S
    (S (S (S (S (S (S (S (S (S (S (S (S (S (S (S (S (S (S (S (S (S (S (S (S
    (S (S
    O))))))))))))))))))))))))))))))))))))))))))))))))))))))))))))))))))))))))))
| X4c ->
  S (S (S (S (S (S (S (S (S (S (S (S (S (S (S (S (S (S (S (S (S (S (S (S (S
    (S (S (S (S (S (S (S (S (S (S (S (S (S (S (S (S (S (S (S (S (S (S (S (S
    (S (S (S (S (S (S (S (S (S (S (S (S (S (S (S (S (S (S (S (S (S (S (S (S
    (S (S (S
    O)))))))))))))))))))))))))))))))))))))))))))))))))))))))))))))))))))))))))))
| X4d ->
  S (S (S (S (S (S (S (S (S (S (S (S (S (S (S (S (S (S (S (S (S (S (S (S (S
    (S (S (S (S (S (S (S (S (S (S (S (S (S (S (S (S (S (S (S (S (S (S (S (S
    (S (S (S (S (S (S (S (S (S (S (S (S (S (S (S (S (S (S (S (S (S (S (S (S
    (S (S (S (S
    O))))))))))))))))))))))))))))))))))))))))))))))))))))))))))))))))))))))))))))
| X4e ->
  S (S (S (S (S (S (S (S (S (S (S (S (S (S (S (S (S (S (S (S (S (S (S (S (S
    (S (S (S (S (S (S (S (S (S (S (S (S (S (S (S (S (S (S (S (S (S (S (S (S
    (S (S (S (S (S (S (S (S (S (S (S (S (S (S (S (S (S (S (S (S (S (S (S (S
    (S (S (S (S (S
    O)))))))))))))))))))))))))))))))))))))))))))))))))))))))))))))))))))))))))))))
| X4f ->
  S (S (S (S (S (S (S (S (S (S (S (S (S (S (S (S (S (S (S (S (S (S (S (S (S
    (S (S (S (S (S (S (S (S (S (S (S (S (S (S (S (S (S (S (S (S (S (S (S (S
    (S (S (S (S (S (S (S (S (S (S (S (S (S (S (S (S (S (S (S (S (S (S (S (S
    (S (S (S (S (S (S
    O))))))))))))))))))))))))))))))))))))))))))))))))))))))))))))))))))))))))))))))
| X50 ->
  S (S (S (S (S (S (S (S (S (S (S (S (S (S (S (S (S (S (S (S (S (S (S (S (S
    (S (S (S (S (S (S (S (S (S (S (S (S (S (S (S (S (S (S (S (S (S (S (S (S
    (S (S (S (S (S (S (S (S (S (S (S (S (S (S (S (S (S (S (S (S (S (S (S (S
    (S (S (S (S (S (S (S
    O)))))))))))))))))))))))))))))))))))))))))))))))))))))))))))))))))))))))))))))))
| X51 ->
  S (S (S (S (S (S (S (S (S (S (S (S (S (S (S (S (S (S (S (S (S (S (S (S (S
    (S (S (S (S (S (S (S (S (S (S (S (S (S (S (S (S (S (S (S (S (S (S (S (S
    (S (S (S (S (S (S (S (S (S (S (S (S (S (S (S (S (S (S (S (S (S (S (S (S
    (S (S (S (S (S (S (S (S
    O))))))))))))))))))))))))))))))))))))))))))))))))))))))))))))))))))))))))))))))))
| X52 ->
  S (S (S (S (S (S (S (S (S (S (S (S (S (S (S (S (S (S (S (S (S (S (S (S (S
    (S (S (S (S (S (S (S (S (S (S (S (S (S (S (S (S (S (S (S (S (S (S (S (S
    (S (S (S (S (S (S (S (S (S (S (S (S (S (S (S (S (S (S (S (S (S (S (S (S
    (S (S (S (S (S (S (S (S (S
    O)))))))))))))))))))))))))))))))))))))))))))))))))))))))))))))))))))))))))))))))))
| X53 ->
  S (S (S (S (S (S (S (S (S (S (S (S (S (S (S (S (S (S (S (S (S (S (S (S (S
    (S (S (S (S (S (S (S (S (S (S (S (S (S (S (S (S (S (S (S (S (S (S (S (S
    (S (S (S (S (S (S (S (S (S (S (S (S (S (S (S (S (S (S (S (S (S (S (S (S
    (S (S (S (S (S (S (S (S (S (S
    O))))))))))))))))))))))))))))))))))))))))))))))))))))))))))))))))))))))))))))))))))
| X54 ->
  S (S (S (S (S (S (S (S (S (S (S (S (S (S (S (S (S (S (S (S (S (S (S (S (S
    (S (S (S (S (S (S (S (S (S (S (S (S (S (S (S (S (S (S (S (S (S (S (S (S
    (S (S (S (S (S (S (S (S (S (S (S (S (S (S (S (S (S (S (S (S (S (S (S (S
    (S (S (S (S (S (S (S (S (S (S (S
    O)))))))))))))))))))))))))))))))))))))))))))))))))))))))))))))))))))))))))))))))))))
| X55 ->
  S (S (S (S (S (S (S (S (S (S (S (S (S (S (S (S (S (S (S (S (S (S (S (S (S
    (S (S (S (S (S (S (S (S (S (S (S (S (S (S (S (S (S (S (S (S (S (S (S (S
    (S (S (S (S (S (S (S (S (S (S (S (S (S (S (S (S (S (S (S (S (S (S (S (S
    (S (S (S (S (S (S (S (S (S (S (S (S
    O))))))))))))))))))))))))))))))))))))))))))))))))))))))))))))))))))))))))))))))))))))
| X56 ->
  S (S (S (S (S (S (S (S (S (S (S (S (S (S (S (S (S (S (S (S (S (S (S (S (S
    (S (S (S (S (S (S (S (S (S (S (S (S (S (S (S (S (S (S (S (S (S (S (S (S
    (S (S (S (S (S (S (S (S (S (S (S (S (S (S (S (S (S (S (S (S (S (S (S (S
    (S (S (S (S (S (S (S (S (S (S (S (S (S
    O)))))))))))))))))))))))))))))))))))))))))))))))))))))))))))))))))))))))))))))))))))))
| X57 ->
  S (S (S (S (S (S (S (S (S (S (S (S (S (S (S (S (S (S (S (S (S (S (S (S (S
    (S (S (S (S (S (S (S (S (S (S (S (S (S (S (S (S (S (S (S (S (S (S (S (S
    (S (S (S (S (S (S (S (S (S (S (S (S (S (S (S (S (S (S (S (S (S (S (S (S
    (S (S (S (S (S (S (S (S (S (S (S (S (S (S
    O))))))))))))))))))))))))))))))))))))))))))))))))))))))))))))))))))))))))))))))))))))))
| X58 ->
  S (S (S (S (S (S (S (S (S (S (S (S (S (S (S (S (S (S (S (S (S (S (S (S (S
    (S (S (S (S (S (S (S (S (S (S (S (S (S (S (S (S (S (S (S (S (S (S (S (S
    (S (S (S (S (S (S (S (S (S (S (S (S (S (S (S (S (S (S (S (S (S (S (S (S
    (S (S (S (S (S (S (S (S (S (S (S (S (S (S (S
    O)))))))))))))))))))))))))))))))))))))))))))))))))))))))))))))))))))))))))))))))))))))))
| X59 ->
  S (S (S (S (S (S (S (S (S (S (S (S (S (S (S (S (S (S (S (S (S (S (S (S (S
    (S (S (S (S (S (S (S (S (S (S (S (S (S (S (S (S (S (S (S (S (S (S (S (S
    (S (S (S (S (S (S (S (S (S (S (S (S (S (S (S (S (S (S (S (S (S (S (S (S
    (S (S (S (S (S (S (S (S (S (S (S (S (S (S (S (S
    O))))))))))))))))))))))))))))))))))))))))))))))))))))))))))))))))))))))))))))))))))))))))
| X5a ->
  S (S (S (S (S (S (S (S (S (S (S (S (S (S (S (S (S (S (S (S (S (S (S (S (S
    (S (S (S (S (S (S (S (S (S (S (S (S (S (S (S (S (S (S (S (S (S (S (S (S
    (S (S (S (S (S (S (S (S (S (S (S (S (S (S (S (S (S (S (S (S (S (S (S (S
    (S (S (S (S (S (S (S (S (S (S (S (S (S (S (S (S (S
    O)))))))))))))))))))))))))))))))))))))))))))))))))))))))))))))))))))))))))))))))))))))))))
| X5b ->
  S (S (S (S (S (S (S (S (S (S (S (S (S (S (S (S (S (S (S (S (S (S (S (S (S
    (S (S (S (S (S (S (S (S (S (S (S (S (S (S (S (S (S (S (S (S (S (S (S (S
    (S (S (S (S (S (S (S (S (S (S (S (S (S (S (S (S (S (S (S (S (S (S (S (S
    (S (S (S (S (S (S (S (S (S (S (S (S (S (S (S (S (S (S
    O))))))))))))))))))))))))))))))))))))))))))))))))))))))))))))))))))))))))))))))))))))))))))
| X5c ->
  S (S (S (S (S (S (S (S (S (S (S (S (S (S (S (S (S (S (S (S (S (S (S (S (S
    (S (S (S (S (S (S (S (S (S (S (S (S (S (S (S (S (S (S (S (S (S (S (S (S
    (S (S (S (S (S (S (S (S (S (S (S (S (S (S (S (S (S (S (S (S (S (S (S (S
    (S (S (S (S (S (S (S (S (S (S (S (S (S (S (S (S (S (S (S
    O)))))))))))))))))))))))))))))))))))))))))))))))))))))))))))))))))))))))))))))))))))))))))))
| X5d ->
  S (S (S (S (S (S (S (S (S (S (S (S (S (S (S (S (S (S (S (S (S (S (S (S (S
    (S (S (S (S (S (S (S (S (S (S (S (S (S (S (S (S (S (S (S (S (S (S (S (S
    (S (S (S (S (S (S (S (S (S (S (S (S (S (S (S (S (S (S (S (S (S (S (S (S
    (S (S (S (S (S (S (S (S (S (S (S (S (S (S (S (S (S (S (S (S
    O))))))))))))))))))))))))))))))))))))))))))))))))))))))))))))))))))))))))))))))))))))))))))))
| X5e ->
  S (S (S (S (S (S (S (S (S (S (S (S (S (S (S (S (S (S (S (S (S (S (S (S (S
    (S (S (S (S (S (S (S (S (S (S (S (S (S (S (S (S (S (S (S (S (S (S (S (S
    (S (S (S (S (S (S (S (S (S (S (S (S (S (S (S (S (S (S (S (S (S (S (S (S
    (S (S (S (S (S (S (S (S (S (S (S (S (S (S (S (S (S (S (S (S (S
    O)))))))))))))))))))))))))))))))))))))))))))))))))))))))))))))))))))))))))))))))))))))))))))))
| X5f ->
  S (S (S (S (S (S (S (S (S (S (S (S (S (S (S (S (S (S (S (S (S (S (S (S (S
    (S (S (S (S (S (S (S (S (S (S (S (S (S (S (S (S (S (S (S (S (S (S (S (S
    (S (S (S (S (S (S (S (S (S (S (S (S (S (S (S (S (S (S (S (S (S (S (S (S
    (S (S (S (S (S (S (S (S (S (S (S (S (S (S (S (S (S (S (S (S (S (S
    O))))))))))))))))))))))))))))))))))))))))))))))))))))))))))))))))))))))))))))))))))))))))))))))
| X60 ->
  S (S (S (S (S (S (S (S (S (S (S (S (S (S (S (S (S (S (S (S (S (S (S (S (S
    (S (S (S (S (S (S (S (S (S (S (S (S (S (S (S (S (S (S (S (S (S (S (S (S
    (S (S (S (S (S (S (S (S (S (S (S (S (S (S (S (S (S (S (S (S (S (S (S (S
    (S (S (S (S (S (S (S (S (S (S (S (S (S (S (S (S (S (S (S (S (S (S (S
    O)))))))))))))))))))))))))))))))))))))))))))))))))))))))))))))))))))))))))))))))))))))))))))))))
| X61 ->
  S (S (S (S (S (S (S (S (S (S (S (S (S (S (S (S (S (S (S (S (S (S (S (S (S
    (S (S (S (S (S (S (S (S (S (S (S (S (S (S (S (S (S (S (S (S (S (S (S (S
    (S (S (S (S (S (S (S (S (S (S (S (S (S (S (S (S (S (S (S (S (S (S (S (S
    (S (S (S (S (S (S (S (S (S (S (S (S (S (S (S (S (S (S (S (S (S (S (S (S
    O))))))))))))))))))))))))))))))))))))))))))))))))))))))))))))))))))))))))))))))))))))))))))))))))
| X62 ->
  S (S (S (S (S (S (S (S (S (S (S (S (S (S (S (S (S (S (S (S (S (S (S (S (S
    (S (S (S (S (S (S (S (S (S (S (S (S (S (S (S (S (S (S (S (S (S (S (S (S
    (S (S (S (S (S (S (S (S (S (S (S (S (S (S (S (S (S (S (S (S (S (S (S (S
    (S (S (S (S (S (S (S (S (S (S (S (S (S (S (S (S (S (S (S (S (S (S (S (S
    (S
    O)))))))))))))))))))))))))))))))))))))))))))))))))))))))))))))))))))))))))))))))))))))))))))))))))
| X63 ->
  S (S (S (S (S (S (S (S (S (S (S (S (S (S (S (S (S (S (S (S (S (S (S (S (S
    (S (S (S (S (S (S (S (S (S (S (S (S (S (S (S (S (S (S (S (S (S (S (S (S
    (S (S (S (S (S (S (S (S (S (S (S (S (S (S (S (S (S (S (S (S (S (S (S (S
    (S (S (S (S (S (S (S (S (S (S (S (S (S (S (S (S (S (S (S (S (S (S (S (S
    (S (S
    O))))))))))))))))))))))))))))))))))))))))))))))))))))))))))))))))))))))))))))))))))))))))))))))))))
| X64 ->
  S (S (S (S (S (S (S (S (S (S (S (S (S (S (S (S (S (S (S (S (S (S (S (S (S
    (S (S (S (S (S (S (S (S (S (S (S (S (S (S (S (S (S (S (S (S (S (S (S (S
    (S (S (S (S (S (S (S (S (S (S (S (S (S (S (S (S (S (S (S (S (S (S (S (S
    (S (S (S (S (S (S (S (S (S (S (S (S (S (S (S (S (S (S (S (S (S (S (S (S
    (S (S (S
    O)))))))))))))))))))))))))))))))))))))))))))))))))))))))))))))))))))))))))))))))))))))))))))))))))))
| X65 ->
  S (S (S (S (S (S (S (S (S (S (S (S (S (S (S (S (S (S (S (S (S (S (S (S (S
    (S (S (S (S (S (S (S (S (S (S (S (S (S (S (S (S (S (S (S (S (S (S (S (S
    (S (S (S (S (S (S (S (S (S (S (S (S (S (S (S (S (S (S (S (S (S (S (S (S
    (S (S (S (S (S (S (S (S (S (S (S (S (S (S (S (S (S (S (S (S (S (S (S (S
    (S (S (S (S
    O))))))))))))))))))))))))))))))))))))))))))))))))))))))))))))))))))))))))))))))))))))))))))))))))))))
| X66 ->
  S (S (S (S (S (S (S (S (S (S (S (S (S (S (S (S (S (S (S (S (S (S (S (S (S
    (S (S (S (S (S (S (S (S (S (S (S (S (S (S (S (S (S (S (S (S (S (S (S (S
    (S (S (S (S (S (S (S (S (S (S (S (S (S (S (S (S (S (S (S (S (S (S (S (S
    (S (S (S (S (S (S (S (S (S (S (S (S (S (S (S (S (S (S (S (S (S (S (S (S
    (S (S (S (S (S
    O)))))))))))))))))))))))))))))))))))))))))))))))))))))))))))))))))))))))))))))))))))))))))))))))))))))
| X67 ->
  S (S (S (S (S (S (S (S (S (S (S (S (S (S (S (S (S (S (S (S (S (S (S (S (S
    (S (S (S (S (S (S (S (S (S (S (S (S (S (S (S (S (S (S (S (S (S (S (S (S
    (S (S (S (S (S (S (S (S (S (S (S (S (S (S (S (S (S (S (S (S (S (S (S (S
    (S (S (S (S (S (S (S (S (S (S (S (S (S (S (S (S (S (S (S (S (S (S (S (S
    (S (S (S (S (S (S
    O))))))))))))))))))))))))))))))))))))))))))))))))))))))))))))))))))))))))))))))))))))))))))))))))))))))
| X68 ->
  S (S (S (S (S (S (S (S (S (S (S (S (S (S (S (S (S (S (S (S (S (S (S (S (S
    (S (S (S (S (S (S (S (S (S (S (S (S (S (S (S (S (S (S (S (S (S (S (S (S
    (S (S (S (S (S (S (S (S (S (S (S (S (S (S (S (S (S (S (S (S (S (S (S (S
    (S (S (S (S (S (S (S (S (S (S (S (S (S (S (S (S (S (S (S (S (S (S (S (S
    (S (S (S (S (S (S (S
    O)))))))))))))))))))))))))))))))))))))))))))))))))))))))))))))))))))))))))))))))))))))))))))))))))))))))
| X69 ->
  S (S (S (S (S (S (S (S (S (S (S (S (S (S (S (S (S (S (S (S (S (S (S (S (S
    (S (S (S (S (S (S (S (S (S (S (S (S (S (S (S (S (S (S (S (S (S (S (S (S
    (S (S (S (S (S (S (S (S (S (S (S (S (S (S (S (S (S (S (S (S (S (S (S (S
    (S (S (S (S (S (S (S (S (S (S (S (S (S (S (S (S (S (S (S (S (S (S (S (S
    (S (S (S (S (S (S (S (S
    O))))))))))))))))))))))))))))))))))))))))))))))))))))))))))))))))))))))))))))))))))))))))))))))))))))))))
| X6a ->
  S (S (S (S (S (S (S (S (S (S (S (S (S (S (S (S (S (S (S (S (S (S (S (S (S
    (S (S (S (S (S (S (S (S (S (S (S (S (S (S (S (S (S (S (S (S (S (S (S (S
    (S (S (S (S (S (S (S (S (S (S (S (S (S (S (S (S (S (S (S (S (S (S (S (S
    (S (S (S (S (S (S (S (S (S (S (S (S (S (S (S (S (S (S (S (S (S (S (S (S
    (S (S (S (S (S (S (S (S (S
    O)))))))))))))))))))))))))))))))))))))))))))))))))))))))))))))))))))))))))))))))))))))))))))))))))))))))))
| X6b ->
  S (S (S (S (S (S (S (S (S (S (S (S (S (S (S (S (S (S (S (S (S (S (S (S (S
    (S (S (S (S (S (S (S (S (S (S (S (S (S (S (S (S (S (S (S (S (S (S (S (S
    (S (S (S (S (S (S (S (S (S (S (S (S (S (S (S (S (S (S (S (S (S (S (S (S
    (S (S (S (S (S (S (S (S (S (S (S (S (S (S (S (S (S (S (S (S (S (S (S (S
    (S (S (S (S (S (S (S (S (S (S
    O))))))))))))))))))))))))))))))))))))))))))))))))))))))))))))))))))))))))))))))))))))))))))))))))))))))))))
| X6c ->
  S (S (S (S (S (S (S (S (S (S (S (S (S (S (S (S (S (S (S (S (S (S (S (S (S
    (S (S (S (S (S (S (S (S (S (S (S (S (S (S (S (S (S (S (S (S (S (S (S (S
    (S (S (S (S (S (S (S (S (S (S (S (S (S (S (S (S (S (S (S (S (S (S (S (S
    (S (S (S (S (S (S (S (S (S (S (S (S (S (S (S (S (S (S (S (S (S (S (S (S
    (S (S (S (S (S (S (S (S (S (S (S
    O)))))))))))))))))))))))))))))))))))))))))))))))))))))))))))))))))))))))))))))))))))))))))))))))))))))))))))
| X6d ->
  S (S (S (S (S (S (S (S (S (S (S (S (S (S (S (S (S (S (S (S (S (S (S (S (S
    (S (S (S (S (S (S (S (S (S (S (S (S (S (S (S (S (S (S (S (S (S (S (S (S
    (S (S (S (S (S (S (S (S (S (S (S (S (S (S (S (S (S (S (S (S (S (S (S (S
    (S (S (S (S (S (S (S (S (S (S (S (S (S (S (S (S (S (S (S (S (S (S (S (S
    (S (S (S (S (S (S (S (S (S (S (S (S
    O))))))))))))))))))))))))))))))))))))))))))))))))))))))))))))))))))))))))))))))))))))))))))))))))))))))))))))
| X6e ->
  S (S (S (S (S (S (S (S (S (S (S (S (S (S (S (S (S (S (S (S (S (S (S (S (S
    (S (S (S (S (S (S (S (S (S (S (S (S (S (S (S (S (S (S (S (S (S (S (S (S
    (S (S (S (S (S (S (S (S (S (S (S (S (S (S (S (S (S (S (S (S (S (S (S (S
    (S (S (S (S (S (S (S (S (S (S (S (S (S (S (S (S (S (S (S (S (S (S (S (S
    (S (S (S (S (S (S (S (S (S (S (S (S (S
    O)))))))))))))))))))))))))))))))))))))))))))))))))))))))))))))))))))))))))))))))))))))))))))))))))))))))))))))
| X6f ->
  S (S (S (S (S (S (S (S (S (S (S (S (S (S (S (S (S (S (S (S (S (S (S (S (S
    (S (S (S (S (S (S (S (S (S (S (S (S (S (S (S (S (S (S (S (S (S (S (S (S
    (S (S (S (S (S (S (S (S (S (S (S (S (S (S (S (S (S (S (S (S (S (S (S (S
    (S (S (S (S (S (S (S (S (S (S (S (S (S (S (S (S (S (S (S (S (S (S (S (S
    (S (S (S (S (S (S (S (S (S (S (S (S (S (S
    O))))))))))))))))))))))))))))))))))))))))))))))))))))))))))))))))))))))))))))))))))))))))))))))))))))))))))))))
| X70 ->
  S (S (S (S (S (S (S (S (S (S (S (S (S (S (S (S (S (S (S (S (S (S (S (S (S
    (S (S (S (S (S (S (S (S (S (S (S (S (S (S (S (S (S (S (S (S (S (S (S (S
    (S (S (S (S (S (S (S (S (S (S (S (S (S (S (S (S (S (S (S (S (S (S (S (S
    (S (S (S (S (S (S (S (S (S (S (S (S (S (S (S (S (S (S (S (S (S (S (S (S
    (S (S (S (S (S (S (S (S (S (S (S (S (S (S (S
    O)))))))))))))))))))))))))))))))))))))))))))))))))))))))))))))))))))))))))))))))))))))))))))))))))))))))))))))))
| X71 ->
  S (S (S (S (S (S (S (S (S (S (S (S (S (S (S (S (S (S (S (S (S (S (S (S (S
    (S (S (S (S (S (S (S (S (S (S (S (S (S (S (S (S (S (S (S (S (S (S (S (S
    (S (S (S (S (S (S (S (S (S (S (S (S (S (S (S (S (S (S (S (S (S (S (S (S
    (S (S (S (S (S (S (S (S (S (S (S (S (S (S (S (S (S (S (S (S (S (S (S (S
    (S (S (S (S (S (S (S (S (S (S (S (S (S (S (S (S
    O))))))))))))))))))))))))))))))))))))))))))))))))))))))))))))))))))))))))))))))))))))))))))))))))))))))))))))))))
| X72 ->
  S (S (S (S (S (S (S (S (S (S (S (S (S (S (S (S (S (S (S (S (S (S (S (S (S
    (S (S (S (S (S (S (S (S (S (S (S (S (S (S (S (S (S (S (S (S (S (S (S (S
    (S (S (S (S (S (S (S (S (S (S (S (S (S (S (S (S (S (S (S (S (S (S (S (S
    (S (S (S (S (S (S (S (S (S (S (S (S (S (S (S (S (S (S (S (S (S (S (S (S
    (S (S (S (S (S (S (S (S (S (S (S (S (S (S (S (S (S
    O)))))))))))))))))))))))))))))))))))))))))))))))))))))))))))))))))))))))))))))))))))))))))))))))))))))))))))))))))
| X73 ->
  S (S (S (S (S (S (S (S (S (S (S (S (S (S (S (S (S (S (S (S (S (S (S (S (S
    (S (S (S (S (S (S (S (S (S (S (S (S (S (S (S (S (S (S (S (S (S (S (S (S
    (S (S (S (S (S (S (S (S (S (S (S (S (S (S (S (S (S (S (S (S (S (S (S (S
    (S (S (S (S (S (S (S (S (S (S (S (S (S (S (S (S (S (S (S (S (S (S (S (S
    (S (S (S (S (S (S (S (S (S (S (S (S (S (S (S (S (S (S
    O))))))))))))))))))))))))))))))))))))))))))))))))))))))))))))))))))))))))))))))))))))))))))))))))))))))))))))))))))
| X74 ->
  S (S (S (S (S (S (S (S (S (S (S (S (S (S (S (S (S (S (S (S (S (S (S (S (S
    (S (S (S (S (S (S (S (S (S (S (S (S (S (S (S (S (S (S (S (S (S (S (S (S
    (S (S (S (S (S (S (S (S (S (S (S (S (S (S (S (S (S (S (S (S (S (S (S (S
    (S (S (S (S (S (S (S (S (S (S (S (S (S (S (S (S (S (S (S (S (S (S (S (S
    (S (S (S (S (S (S (S (S (S (S (S (S (S (S (S (S (S (S (S
    O)))))))))))))))))))))))))))))))))))))))))))))))))))))))))))))))))))))))))))))))))))))))))))))))))))))))))))))))))))
| X75 ->
  S (S (S (S (S (S (S (S (S (S (S (S (S (S (S (S (S (S (S (S (S (S (S (S (S
    (S (S (S (S (S (S (S (S (S (S (S (S (S (S (S (S (S (S (S (S (S (S (S (S
    (S (S (S (S (S (S (S (S (S (S (S (S (S (S (S (S (S (S (S (S (S (S (S (S
    (S (S (S (S (S (S (S (S (S (S (S (S (S (S (S (S (S (S (S (S (S (S (S (S
    (S (S (S (S (S (S (S (S (S (S (S (S (S (S (S (S (S (S (S (S
    O))))))))))))))))))))))))))))))))))))))))))))))))))))))))))))))))))))))))))))))))))))))))))))))))))))))))))))))))))))
| X76 ->
  S (S (S (S (S (S (S (S (S (S (S (S (S (S (S (S (S (S (S (S (S (S (S (S (S
    (S (S (S (S (S (S (S (S (S (S (S (S (S (S (S (S (S (S (S (S (S (S (S (S
    (S (S (S (S (S (S (S (S (S (S (S (S (S (S (S (S (S (S (S (S (S (S (S (S
    (S (S (S (S (S (S (S (S (S (S (S (S (S (S (S (S (S (S (S (S (S (S (S (S
    (S (S (S (S (S (S (S (S (S (S (S (S (S (S (S (S (S (S (S (S (S
    O)))))))))))))))))))))))))))))))))))))))))))))))))))))))))))))))))))))))))))))))))))))))))))))))))))))))))))))))))))))
| X77 ->
  S (S (S (S (S (S (S (S (S (S (S (S (S (S (S (S (S (S (S (S (S (S (S (S (S
    (S (S (S (S (S (S (S (S (S (S (S (S (S (S (S (S (S (S (S (S (S (S (S (S
    (S (S (S (S (S (S (S (S (S (S (S (S (S (S (S (S (S (S (S (S (S (S (S (S
    (S (S (S (S (S (S (S (S (S (S (S (S (S (S (S (S (S (S (S (S (S (S (S (S
    (S (S (S (S (S (S (S (S (S (S (S (S (S (S (S (S (S (S (S (S (S (S
    O))))))))))))))))))))))))))))))))))))))))))))))))))))))))))))))))))))))))))))))))))))))))))))))))))))))))))))))))))))))
| X78 ->
  S (S (S (S (S (S (S (S (S (S (S (S (S (S (S (S (S (S (S (S (S (S (S (S (S
    (S (S (S (S (S (S (S (S (S (S (S (S (S (S (S (S (S (S (S (S (S (S (S (S
    (S (S (S (S (S (S (S (S (S (S (S (S (S (S (S (S (S (S (S (S (S (S (S (S
    (S (S (S (S (S (S (S (S (S (S (S (S (S (S (S (S (S (S (S (S (S (S (S (S
    (S (S (S (S (S (S (S (S (S (S (S (S (S (S (S (S (S (S (S (S (S (S (S
    O)))))))))))))))))))))))))))))))))))))))))))))))))))))))))))))))))))))))))))))))))))))))))))))))))))))))))))))))))))))))
| X79 ->
  S (S (S (S (S (S (S (S (S (S (S (S (S (S (S (S (S (S (S (S (S (S (S (S (S
    (S (S (S (S (S (S (S (S (S (S (S (S (S (S (S (S (S (S (S (S (S (S (S (S
    (S (S (S (S (S (S (S (S (S (S (S (S (S (S (S (S (S (S (S (S (S (S (S (S
    (S (S (S (S (S (S (S (S (S (S (S (S (S (S (S (S (S (S (S (S (S (S (S (S
    (S (S (S (S (S (S (S (S (S (S (S (S (S (S (S (S (S (S (S (S (S (S (S (S
    O))))))))))))))))))))))))))))))))))))))))))))))))))))))))))))))))))))))))))))))))))))))))))))))))))))))))))))))))))))))))
| X7a ->
  S (S (S (S (S (S (S (S (S (S (S (S (S (S (S (S (S (S (S (S (S (S (S (S (S
    (S (S (S (S (S (S (S (S (S (S (S (S (S (S (S (S (S (S (S (S (S (S (S (S
    (S (S (S (S (S (S (S (S (S (S (S (S (S (S (S (S (S (S (S (S (S (S (S (S
    (S (S (S (S (S (S (S (S (S (S (S (S (S (S (S (S (S (S (S (S (S (S (S (S
    (S (S (S (S (S (S (S (S (S (S (S (S (S (S (S (S (S (S (S (S (S (S (S (S
    (S
    O)))))))))))))))))))))))))))))))))))))))))))))))))))))))))))))))))))))))))))))))))))))))))))))))))))))))))))))))))))))))))
| X7b ->
  S (S (S (S (S (S (S (S (S (S (S (S (S (S (S (S (S (S (S (S (S (S (S (S (S
    (S (S (S (S (S (S (S (S (S (S (S (S (S (S (S (S (S (S (S (S (S (S (S (S
    (S (S (S (S (S (S (S (S (S (S (S (S (S (S (S (S (S (S (S (S (S (S (S (S
    (S (S (S (S (S (S (S (S (S (S (S (S (S (S (S (S (S (S (S (S (S (S (S (S
    (S (S (S (S (S (S (S (S (S (S (S (S (S (S (S (S (S (S (S (S (S (S (S (S
    (S (S
    O))))))))))))))))))))))))))))))))))))))))))))))))))))))))))))))))))))))))))))))))))))))))))))))))))))))))))))))))))))))))))
| X7c ->
  S (S (S (S (S (S (S (S (S (S (S (S (S (S (S (S (S (S (S (S (S (S (S (S (S
    (S (S (S (S (S (S (S (S (S (S (S (S (S (S (S (S (S (S (S (S (S (S (S (S
    (S (S (S (S (S (S (S (S (S (S (S (S (S (S (S (S (S (S (S (S (S (S (S (S
    (S (S (S (S (S (S (S (S (S (S (S (S (S (S (S (S (S (S (S (S (S (S (S (S
    (S (S (S (S (S (S (S (S (S (S (S (S (S (S (S (S (S (S (S (S (S (S (S (S
    (S (S (S
    O)))))))))))))))))))))))))))))))))))))))))))))))))))))))))))))))))))))))))))))))))))))))))))))))))))))))))))))))))))))))))))
| X7d ->
  S (S (S (S (S (S (S (S (S (S (S (S (S (S (S (S (S (S (S (S (S (S (S (S (S
    (S (S (S (S (S (S (S (S (S (S (S (S (S (S (S (S (S (S (S (S (S (S (S (S
    (S (S (S (S (S (S (S (S (S (S (S (S (S (S (S (S (S (S (S (S (S (S (S (S
    (S (S (S (S (S (S (S (S (S (S (S (S (S (S (S (S (S (S (S (S (S (S (S (S
    (S (S (S (S (S (S (S (S (S (S (S (S (S (S (S (S (S (S (S (S (S (S (S (S
    (S (S (S (S
    O))))))))))))))))))))))))))))))))))))))))))))))))))))))))))))))))))))))))))))))))))))))))))))))))))))))))))))))))))))))))))))
| X7e ->
  S (S (S (S (S (S (S (S (S (S (S (S (S (S (S (S (S (S (S (S (S (S (S (S (S
    (S (S (S (S (S (S (S (S (S (S (S (S (S (S (S (S (S (S (S (S (S (S (S (S
    (S (S (S (S (S (S (S (S (S (S (S (S (S (S (S (S (S (S (S (S (S (S (S (S
    (S (S (S (S (S (S (S (S (S (S (S (S (S (S (S (S (S (S (S (S (S (S (S (S
    (S (S (S (S (S (S (S (S (S (S (S (S (S (S (S (S (S (S (S (S (S (S (S (S
    (S (S (S (S (S
    O)))))))))))))))))))))))))))))))))))))))))))))))))))))))))))))))))))))))))))))))))))))))))))))))))))))))))))))))))))))))))))))
| X7f ->
  S (S (S (S (S (S (S (S (S (S (S (S (S (S (S (S (S (S (S (S (S (S (S (S (S
    (S (S (S (S (S (S (S (S (S (S (S (S (S (S (S (S (S (S (S (S (S (S (S (S
    (S (S (S (S (S (S (S (S (S (S (S (S (S (S (S (S (S (S (S (S (S (S (S (S
    (S (S (S (S (S (S (S (S (S (S (S (S (S (S (S (S (S (S (S (S (S (S (S (S
    (S (S (S (S (S (S (S (S (S (S (S (S (S (S (S (S (S (S (S (S (S (S (S (S
    (S (S (S (S (S (S
    O))))))))))))))))))))))))))))))))))))))))))))))))))))))))))))))))))))))))))))))))))))))))))))))))))))))))))))))))))))))))))))))
| X80 ->
  S (S (S (S (S (S (S (S (S (S (S (S (S (S (S (S (S (S (S (S (S (S (S (S (S
    (S (S (S (S (S (S (S (S (S (S (S (S (S (S (S (S (S (S (S (S (S (S (S (S
    (S (S (S (S (S (S (S (S (S (S (S (S (S (S (S (S (S (S (S (S (S (S (S (S
    (S (S (S (S (S (S (S (S (S (S (S (S (S (S (S (S (S (S (S (S (S (S (S (S
    (S (S (S (S (S (S (S (S (S (S (S (S (S (S (S (S (S (S (S (S (S (S (S (S
    (S (S (S (S (S (S (S
    O)))))))))))))))))))))))))))))))))))))))))))))))))))))))))))))))))))))))))))))))))))))))))))))))))))))))))))))))))))))))))))))))
| X81 ->
  S (S (S (S (S (S (S (S (S (S (S (S (S (S (S (S (S (S (S (S (S (S (S (S (S
    (S (S (S (S (S (S (S (S (S (S (S (S (S (S (S (S (S (S (S (S (S (S (S (S
    (S (S (S (S (S (S (S (S (S (S (S (S (S (S (S (S (S (S (S (S (S (S (S (S
    (S (S (S (S (S (S (S (S (S (S (S (S (S (S (S (S (S (S (S (S (S (S (S (S
    (S (S (S (S (S (S (S (S (S (S (S (S (S (S (S (S (S (S (S (S (S (S (S (S
    (S (S (S (S (S (S (S (S
    O))))))))))))))))))))))))))))))))))))))))))))))))))))))))))))))))))))))))))))))))))))))))))))))))))))))))))))))))))))))))))))))))
| X82 ->
  S (S (S (S (S (S (S (S (S (S (S (S (S (S (S (S (S (S (S (S (S (S (S (S (S
    (S (S (S (S (S (S (S (S (S (S (S (S (S (S (S (S (S (S (S (S (S (S (S (S
    (S (S (S (S (S (S (S (S (S (S (S (S (S (S (S (S (S (S (S (S (S (S (S (S
    (S (S (S (S (S (S (S (S (S (S (S (S (S (S (S (S (S (S (S (S (S (S (S (S
    (S (S (S (S (S (S (S (S (S (S (S (S (S (S (S (S (S (S (S (S (S (S (S (S
    (S (S (S (S (S (S (S (S (S
    O)))))))))))))))))))))))))))))))))))))))))))))))))))))))))))))))))))))))))))))))))))))))))))))))))))))))))))))))))))))))))))))))))
| X83 ->
  S (S (S (S (S (S (S (S (S (S (S (S (S (S (S (S (S (S (S (S (S (S (S (S (S
    (S (S (S (S (S (S (S (S (S (S (S (S (S (S (S (S (S (S (S (S (S (S (S (S
    (S (S (S (S (S (S (S (S (S (S (S (S (S (S (S (S (S (S (S (S (S (S (S (S
    (S (S (S (S (S (S (S (S (S (S (S (S (S (S (S (S (S (S (S (S (S (S (S (S
    (S (S (S (S (S (S (S (S (S (S (S (S (S (S (S (S (S (S (S (S (S (S (S (S
    (S (S (S (S (S (S (S (S (S (S
    O))))))))))))))))))))))))))))))))))))))))))))))))))))))))))))))))))))))))))))))))))))))))))))))))))))))))))))))))))))))))))))))))))
| X84 ->
  S (S (S (S (S (S (S (S (S (S (S (S (S (S (S (S (S (S (S (S (S (S (S (S (S
    (S (S (S (S (S (S (S (S (S (S (S (S (S (S (S (S (S (S (S (S (S (S (S (S
    (S (S (S (S (S (S (S (S (S (S (S (S (S (S (S (S (S (S (S (S (S (S (S (S
    (S (S (S (S (S (S (S (S (S (S (S (S (S (S (S (S (S (S (S (S (S (S (S (S
    (S (S (S (S (S (S (S (S (S (S (S (S (S (S (S (S (S (S (S (S (S (S (S (S
    (S (S (S (S (S (S (S (S (S (S (S
    O)))))))))))))))))))))))))))))))))))))))))))))))))))))))))))))))))))))))))))))))))))))))))))))))))))))))))))))))))))))))))))))))))))
| X85 ->
  S (S (S (S (S (S (S (S (S (S (S (S (S (S (S (S (S (S (S (S (S (S (S (S (S
    (S (S (S (S (S (S (S (S (S (S (S (S (S (S (S (S (S (S (S (S (S (S (S (S
    (S (S (S (S (S (S (S (S (S (S (S (S (S (S (S (S (S (S (S (S (S (S (S (S
    (S (S (S (S (S (S (S (S (S (S (S (S (S (S (S (S (S (S (S (S (S (S (S (S
    (S (S (S (S (S (S (S (S (S (S (S (S (S (S (S (S (S (S (S (S (S (S (S (S
    (S (S (S (S (S (S (S (S (S (S (S (S
    O))))))))))))))))))))))))))))))))))))))))))))))))))))))))))))))))))))))))))))))))))))))))))))))))))))))))))))))))))))))))))))))))))))
| X86 ->
  S (S (S (S (S (S (S (S (S (S (S (S (S (S (S (S (S (S (S (S (S (S (S (S (S
    (S (S (S (S (S (S (S (S (S (S (S (S (S (S (S (S (S (S (S (S (S (S (S (S
    (S (S (S (S (S (S (S (S (S (S (S (S (S (S (S (S (S (S (S (S (S (S (S (S
    (S (S (S (S (S (S (S (S (S (S (S (S (S (S (S (S (S (S (S (S (S (S (S (S
    (S (S (S (S (S (S (S (S (S (S (S (S (S (S (S (S (S (S (S (S (S (S (S (S
    (S (S (S (S (S (S (S (S (S (S (S (S (S
    O)))))))))))))))))))))))))))))))))))))))))))))))))))))))))))))))))))))))))))))))))))))))))))))))))))))))))))))))))))))))))))))))))))))
| X87 ->
  S (S (S (S (S (S (S (S (S (S (S (S (S (S (S (S (S (S (S (S (S (S (S (S (S
    (S (S (S (S (S (S (S (S (S (S (S (S (S (S (S (S (S (S (S (S (S (S (S (S
    (S (S (S (S (S (S (S (S (S (S (S (S (S (S (S (S (S (S (S (S (S (S (S (S
    (S (S (S (S (S (S (S (S (S (S (S (S (S (S (S (S (S (S (S (S (S (S (S (S
    (S (S (S (S (S (S (S (S (S (S (S (S (S (S (S (S (S (S (S (S (S (S (S (S
    (S (S (S (S (S (S (S (S (S (S (S (S (S (S
    O))))))))))))))))))))))))))))))))))))))))))))))))))))))))))))))))))))))))))))))))))))))))))))))))))))))))))))))))))))))))))))))))))))))
| X88 ->
  S (S (S (S (S (S (S (S (S (S (S (S (S (S (S (S (S (S (S (S (S (S (S (S (S
    (S (S (S (S (S (S (S (S (S (S (S (S (S (S (S (S (S (S (S (S (S (S (S (S
    (S (S (S (S (S (S (S (S (S (S (S (S (S (S (S (S (S (S (S (S (S (S (S (S
    (S (S (S (S (S (S (S (S (S (S (S (S (S (S (S (S (S (S (S (S (S (S (S (S
    (S (S (S (S (S (S (S (S (S (S (S (S (S (S (S (S (S (S (S (S (S (S (S (S
    (S (S (S (S (S (S (S (S (S (S (S (S (S (S (S
    O)))))))))))))))))))))))))))))))))))))))))))))))))))))))))))))))))))))))))))))))))))))))))))))))))))))))))))))))))))))))))))))))))))))))
| X89 ->
  S (S (S (S (S (S (S (S (S (S (S (S (S (S (S (S (S (S (S (S (S (S (S (S (S
    (S (S (S (S (S (S (S (S (S (S (S (S (S (S (S (S (S (S (S (S (S (S (S (S
    (S (S (S (S (S (S (S (S (S (S (S (S (S (S (S (S (S (S (S (S (S (S (S (S
    (S (S (S (S (S (S (S (S (S (S (S (S (S (S (S (S (S (S (S (S (S (S (S (S
    (S (S (S (S (S (S (S (S (S (S (S (S (S (S (S (S (S (S (S (S (S (S (S (S
    (S (S (S (S (S (S (S (S (S (S (S (S (S (S (S (S
    O))))))))))))))))))))))))))))))))))))))))))))))))))))))))))))))))))))))))))))))))))))))))))))))))))))))))))))))))))))))))))))))))))))))))
| X8a ->
  S (S (S (S (S (S (S (S (S (S (S (S (S (S (S (S (S (S (S (S (S (S (S (S (S
    (S (S (S (S (S (S (S (S (S (S (S (S (S (S (S (S (S (S (S (S (S (S (S (S
    (S (S (S (S (S (S (S (S (S (S (S (S (S (S (S (S (S (S (S (S (S (S (S (S
    (S (S (S (S (S (S (S (S (S (S (S (S (S (S (S (S (S (S (S (S (S (S (S (S
    (S (S (S (S (S (S (S (S (S (S (S (S (S (S (S (S (S (S (S (S (S (S (S (S
    (S (S (S (S (S (S (S (S (S (S (S (S (S (S (S (S (S
    O)))))))))))))))))))))))))))))))))))))))))))))))))))))))))))))))))))))))))))))))))))))))))))))))))))))))))))))))))))))))))))))))))))))))))
| X8b ->
  S (S (S (S (S (S (S (S (S (S (S (S (S (S (S (S (S (S (S (S (S (S (S (S (S
    (S (S (S (S (S (S (S (S (S (S (S (S (S (S (S (S (S (S (S (S (S (S (S (S
    (S (S (S (S (S (S (S (S (S (S (S (S (S (S (S (S (S (S (S (S (S (S (S (S
    (S (S (S (S (S (S (S (S (S (S (S (S (S (S (S (S (S (S (S (S (S (S (S (S
    (S (S (S (S (S (S (S (S (S (S (S (S (S (S (S (S (S (S (S (S (S (S (S (S
    (S (S (S (S (S (S (S (S (S (S (S (S (S (S (S (S (S (S
    O))))))))))))))))))))))))))))))))))))))))))))))))))))))))))))))))))))))))))))))))))))))))))))))))))))))))))))))))))))))))))))))))))))))))))
| X8c ->
  S (S (S (S (S (S (S (S (S (S (S (S (S (S (S (S (S (S (S (S (S (S (S (S (S
    (S (S (S (S (S (S (S (S (S (S (S (S (S (S (S (S (S (S (S (S (S (S (S (S
    (S (S (S (S (S (S (S (S (S (S (S (S (S (S (S (S (S (S (S (S (S (S (S (S
    (S (S (S (S (S (S (S (S (S (S (S (S (S (S (S (S (S (S (S (S (S (S (S (S
    (S (S (S (S (S (S (S (S (S (S (S (S (S (S (S (S (S (S (S (S (S (S (S (S
    (S (S (S (S (S (S (S (S (S (S (S (S (S (S (S (S (S (S (S
    O)))))))))))))))))))))))))))))))))))))))))))))))))))))))))))))))))))))))))))))))))))))))))))))))))))))))))))))))))))))))))))))))))))))))))))
| X8d ->
  S (S (S (S (S (S (S (S (S (S (S (S (S (S (S (S (S (S (S (S (S (S (S (S (S
    (S (S (S (S (S (S (S (S (S (S (S (S (S (S (S (S (S (S (S (S (S (S (S (S
    (S (S (S (S (S (S (S (S (S (S (S (S (S (S (S (S (S (S (S (S (S (S (S (S
    (S (S (S (S (S (S (S (S (S (S (S (S (S (S (S (S (S (S (S (S (S (S (S (S
    (S (S (S (S (S (S (S (S (S (S (S (S (S (S (S (S (S (S (S (S (S (S (S (S
    (S (S (S (S (S (S (S (S (S (S (S (S (S (S (S (S (S (S (S (S
    O))))))))))))))))))))))))))))))))))))))))))))))))))))))))))))))))))))))))))))))))))))))))))))))))))))))))))))))))))))))))))))))))))))))))))))
| X8e ->
  S (S (S (S (S (S (S (S (S (S (S (S (S (S (S (S (S (S (S (S (S (S (S (S (S
    (S (S (S (S (S (S (S (S (S (S (S (S (S (S (S (S (S (S (S (S (S (S (S (S
    (S (S (S (S (S (S (S (S (S (S (S (S (S (S (S (S (S (S (S (S (S (S (S (S
    (S (S (S (S (S (S (S (S (S (S (S (S (S (S (S (S (S (S (S (S (S (S (S (S
    (S (S (S (S (S (S (S (S (S (S (S (S (S (S (S (S (S (S (S (S (S (S (S (S
    (S (S (S (S (S (S (S (S (S (S (S (S (S (S (S (S (S (S (S (S (S
    O)))))))))))))))))))))))))))))))))))))))))))))))))))))))))))))))))))))))))))))))))))))))))))))))))))))))))))))))))))))))))))))))))))))))))))))
| X8f ->
  S (S (S (S (S (S (S (S (S (S (S (S (S (S (S (S (S (S (S (S (S (S (S (S (S
    (S (S (S (S (S (S (S (S (S (S (S (S (S (S (S (S (S (S (S (S (S (S (S (S
    (S (S (S (S (S (S (S (S (S (S (S (S (S (S (S (S (S (S (S (S (S (S (S (S
    (S (S (S (S (S (S (S (S (S (S (S (S (S (S (S (S (S (S (S (S (S (S (S (S
    (S (S (S (S (S (S (S (S (S (S (S (S (S (S (S (S (S (S (S (S (S (S (S (S
    (S (S (S (S (S (S (S (S (S (S (S (S (S (S (S (S (S (S (S (S (S (S
    O))))))))))))))))))))))))))))))))))))))))))))))))))))))))))))))))))))))))))))))))))))))))))))))))))))))))))))))))))))))))))))))))))))))))))))))
| X90 ->
  S (S (S (S (S (S (S (S (S (S (S (S (S (S (S (S (S (S (S (S (S (S (S (S (S
    (S (S (S (S (S (S (S (S (S (S (S (S (S (S (S (S (S (S (S (S (S (S (S (S
    (S (S (S (S (S (S (S (S (S (S (S (S (S (S (S (S (S (S (S (S (S (S (S (S
    (S (S (S (S (S (S (S (S (S (S (S (S (S (S (S (S (S (S (S (S (S (S (S (S
    (S (S (S (S (S (S (S (S (S (S (S (S (S (S (S (S (S (S (S (S (S (S (S (S
    (S (S (S (S (S (S (S (S (S (S (S (S (S (S (S (S (S (S (S (S (S (S (S
    O)))))))))))))))))))))))))))))))))))))))))))))))))))))))))))))))))))))))))))))))))))))))))))))))))))))))))))))))))))))))))))))))))))))))))))))))
| X91 ->
  S (S (S (S (S (S (S (S (S (S (S (S (S (S (S (S (S (S (S (S (S (S (S (S (S
    (S (S (S (S (S (S (S (S (S (S (S (S (S (S (S (S (S (S (S (S (S (S (S (S
    (S (S (S (S (S (S (S (S (S (S (S (S (S (S (S (S (S (S (S (S (S (S (S (S
    (S (S (S (S (S (S (S (S (S (S (S (S (S (S (S (S (S (S (S (S (S (S (S (S
    (S (S (S (S (S (S (S (S (S (S (S (S (S (S (S (S (S (S (S (S (S (S (S (S
    (S (S (S (S (S (S (S (S (S (S (S (S (S (S (S (S (S (S (S (S (S (S (S (S
    O))))))))))))))))))))))))))))))))))))))))))))))))))))))))))))))))))))))))))))))))))))))))))))))))))))))))))))))))))))))))))))))))))))))))))))))))
| X92 ->
  S (S (S (S (S (S (S (S (S (S (S (S (S (S (S (S (S (S (S (S (S (S (S (S (S
    (S (S (S (S (S (S (S (S (S (S (S (S (S (S (S (S (S (S (S (S (S (S (S (S
    (S (S (S (S (S (S (S (S (S (S (S (S (S (S (S (S (S (S (S (S (S (S (S (S
    (S (S (S (S (S (S (S (S (S (S (S (S (S (S (S (S (S (S (S (S (S (S (S (S
    (S (S (S (S (S (S (S (S (S (S (S (S (S (S (S (S (S (S (S (S (S (S (S (S
    (S (S (S (S (S (S (S (S (S (S (S (S (S (S (S (S (S (S (S (S (S (S (S (S
    (S
    O)))))))))))))))))))))))))))))))))))))))))))))))))))))))))))))))))))))))))))))))))))))))))))))))))))))))))))))))))))))))))))))))))))))))))))))))))
| X93 ->
  S (S (S (S (S (S (S (S (S (S (S (S (S (S (S (S (S (S (S (S (S (S (S (S (S
    (S (S (S (S (S (S (S (S (S (S (S (S (S (S (S (S (S (S (S (S (S (S (S (S
    (S (S (S (S (S (S (S (S (S (S (S (S (S (S (S (S (S (S (S (S (S (S (S (S
    (S (S (S (S (S (S (S (S (S (S (S (S (S (S (S (S (S (S (S (S (S (S (S (S
    (S (S (S (S (S (S (S (S (S (S (S (S (S (S (S (S (S (S (S (S (S (S (S (S
    (S (S (S (S (S (S (S (S (S (S (S (S (S (S (S (S (S (S (S (S (S (S (S (S
    (S (S
    O))))))))))))))))))))))))))))))))))))))))))))))))))))))))))))))))))))))))))))))))))))))))))))))))))))))))))))))))))))))))))))))))))))))))))))))))))
| X94 ->
  S (S (S (S (S (S (S (S (S (S (S (S (S (S (S (S (S (S (S (S (S (S (S (S (S
    (S (S (S (S (S (S (S (S (S (S (S (S (S (S (S (S (S (S (S (S (S (S (S (S
    (S (S (S (S (S (S (S (S (S (S (S (S (S (S (S (S (S (S (S (S (S (S (S (S
    (S (S (S (S (S (S (S (S (S (S (S (S (S (S (S (S (S (S (S (S (S (S (S (S
    (S (S (S (S (S (S (S (S (S (S (S (S (S (S (S (S (S (S (S (S (S (S (S (S
    (S (S (S (S (S (S (S (S (S (S (S (S (S (S (S (S (S (S (S (S (S (S (S (S
    (S (S (S
    O)))))))))))))))))))))))))))))))))))))))))))))))))))))))))))))))))))))))))))))))))))))))))))))))))))))))))))))))))))))))))))))))))))))))))))))))))))
| X95 ->
  S (S (S (S (S (S (S (S (S (S (S (S (S (S (S (S (S (S (S (S (S (S (S (S (S
    (S (S (S (S (S (S (S (S (S (S (S (S (S (S (S (S (S (S (S (S (S (S (S (S
    (S (S (S (S (S (S (S (S (S (S (S (S (S (S (S (S (S (S (S (S (S (S (S (S
    (S (S (S (S (S (S (S (S (S (S (S (S (S (S (S (S (S (S (S (S (S (S (S (S
    (S (S (S (S (S (S (S (S (S (S (S (S (S (S (S (S (S (S (S (S (S (S (S (S
    (S (S (S (S (S (S (S (S (S (S (S (S (S (S (S (S (S (S (S (S (S (S (S (S
    (S (S (S (S
    O))))))))))))))))))))))))))))))))))))))))))))))))))))))))))))))))))))))))))))))))))))))))))))))))))))))))))))))))))))))))))))))))))))))))))))))))))))
| X96 ->
  S (S (S (S (S (S (S (S (S (S (S (S (S (S (S (S (S (S (S (S (S (S (S (S (S
    (S (S (S (S (S (S (S (S (S (S (S (S (S (S (S (S (S (S (S (S (S (S (S (S
    (S (S (S (S (S (S (S (S (S (S (S (S (S (S (S (S (S (S (S (S (S (S (S (S
    (S (S (S (S (S (S (S (S (S (S (S (S (S (S (S (S (S (S (S (S (S (S (S (S
    (S (S (S (S (S (S (S (S (S (S (S (S (S (S (S (S (S (S (S (S (S (S (S (S
    (S (S (S (S (S (S (S (S (S (S (S (S (S (S (S (S (S (S (S (S (S (S (S (S
    (S (S (S (S (S
    O)))))))))))))))))))))))))))))))))))))))))))))))))))))))))))))))))))))))))))))))))))))))))))))))))))))))))))))))))))))))))))))))))))))))))))))))))))))
| X97 ->
  S (S (S (S (S (S (S (S (S (S (S (S (S (S (S (S (S (S (S (S (S (S (S (S (S
    (S (S (S (S (S (S (S (S (S (S (S (S (S (S (S (S (S (S (S (S (S (S (S (S
    (S (S (S (S (S (S (S (S (S (S (S (S (S (S (S (S (S (S (S (S (S (S (S (S
    (S (S (S (S (S (S (S (S (S (S (S (S (S (S (S (S (S (S (S (S (S (S (S (S
    (S (S (S (S (S (S (S (S (S (S (S (S (S (S (S (S (S (S (S (S (S (S (S (S
    (S (S (S (S (S (S (S (S (S (S (S (S (S (S (S (S (S (S (S (S (S (S (S (S
    (S (S (S (S (S (S
    O))))))))))))))))))))))))))))))))))))))))))))))))))))))))))))))))))))))))))))))))))))))))))))))))))))))))))))))))))))))))))))))))))))))))))))))))))))))
| X98 ->
  S (S (S (S (S (S (S (S (S (S (S (S (S (S (S (S (S (S (S (S (S (S (S (S (S
    (S (S (S (S (S (S (S (S (S (S (S (S (S (S (S (S (S (S (S (S (S (S (S (S
    (S (S (S (S (S (S (S (S (S (S (S (S (S (S (S (S (S (S (S (S (S (S (S (S
    (S (S (S (S (S (S (S (S (S (S (S (S (S (S (S (S (S (S (S (S (S (S (S (S
    (S (S (S (S (S (S (S (S (S (S (S (S (S (S (S (S (S (S (S (S (S (S (S (S
    (S (S (S (S (S (S (S (S (S (S (S (S (S (S (S (S (S (S (S (S (S (S (S (S
    (S (S (S (S (S (S (S
    O)))))))))))))))))))))))))))))))))))))))))))))))))))))))))))))))))))))))))))))))))))))))))))))))))))))))))))))))))))))))))))))))))))))))))))))))))))))))
| X99 ->
  S (S (S (S (S (S (S (S (S (S (S (S (S (S (S (S (S (S (S (S (S (S (S (S (S
    (S (S (S (S (S (S (S (S (S (S (S (S (S (S (S (S (S (S (S (S (S (S (S (S
    (S (S (S (S (S (S (S (S (S (S (S (S (S (S (S (S (S (S (S (S (S (S (S (S
    (S (S (S (S (S (S (S (S (S (S (S (S (S (S (S (S (S (S (S (S (S (S (S (S
    (S (S (S (S (S (S (S (S (S (S (S (S (S (S (S (S (S (S (S (S (S (S (S (S
    (S (S (S (S (S (S (S (S (S (S (S (S (S (S (S (S (S (S (S (S (S (S (S (S
    (S (S (S (S (S (S (S (S
    O))))))))))))))))))))))))))))))))))))))))))))))))))))))))))))))))))))))))))))))))))))))))))))))))))))))))))))))))))))))))))))))))))))))))))))))))))))))))
| X9a ->
  S (S (S (S (S (S (S (S (S (S (S (S (S (S (S (S (S (S (S (S (S (S (S (S (S
    (S (S (S (S (S (S (S (S (S (S (S (S (S (S (S (S (S (S (S (S (S (S (S (S
    (S (S (S (S (S (S (S (S (S (S (S (S (S (S (S (S (S (S (S (S (S (S (S (S
    (S (S (S (S (S (S (S (S (S (S (S (S (S (S (S (S (S (S (S (S (S (S (S (S
    (S (S (S (S (S (S (S (S (S (S (S (S (S (S (S (S (S (S (S (S (S (S (S (S
    (S (S (S (S (S (S (S (S (S (S (S (S (S (S (S (S (S (S (S (S (S (S (S (S
    (S (S (S (S (S (S (S (S (S
    O)))))))))))))))))))))))))))))))))))))))))))))))))))))))))))))))))))))))))))))))))))))))))))))))))))))))))))))))))))))))))))))))))))))))))))))))))))))))))
| X9b ->
  S (S (S (S (S (S (S (S (S (S (S (S (S (S (S (S (S (S (S (S (S (S (S (S (S
    (S (S (S (S (S (S (S (S (S (S (S (S (S (S (S (S (S (S (S (S (S (S (S (S
    (S (S (S (S (S (S (S (S (S (S (S (S (S (S (S (S (S (S (S (S (S (S (S (S
    (S (S (S (S (S (S (S (S (S (S (S (S (S (S (S (S (S (S (S (S (S (S (S (S
    (S (S (S (S (S (S (S (S (S (S (S (S (S (S (S (S (S (S (S (S (S (S (S (S
    (S (S (S (S (S (S (S (S (S (S (S (S (S (S (S (S (S (S (S (S (S (S (S (S
    (S (S (S (S (S (S (S (S (S (S
    O))))))))))))))))))))))))))))))))))))))))))))))))))))))))))))))))))))))))))))))))))))))))))))))))))))))))))))))))))))))))))))))))))))))))))))))))))))))))))
| X9c ->
  S (S (S (S (S (S (S (S (S (S (S (S (S (S (S (S (S (S (S (S (S (S (S (S (S
    (S (S (S (S (S (S (S (S (S (S (S (S (S (S (S (S (S (S (S (S (S (S (S (S
    (S (S (S (S (S (S (S (S (S (S (S (S (S (S (S (S (S (S (S (S (S (S (S (S
    (S (S (S (S (S (S (S (S (S (S (S (S (S (S (S (S (S (S (S (S (S (S (S (S
    (S (S (S (S (S (S (S (S (S (S (S (S (S (S (S (S (S (S (S (S (S (S (S (S
    (S (S (S (S (S (S (S (S (S (S (S (S (S (S (S (S (S (S (S (S (S (S (S (S
    (S (S (S (S (S (S (S (S (S (S (S
    O)))))))))))))))))))))))))))))))))))))))))))))))))))))))))))))))))))))))))))))))))))))))))))))))))))))))))))))))))))))))))))))))))))))))))))))))))))))))))))
| X9d ->
  S (S (S (S (S (S (S (S (S (S (S (S (S (S (S (S (S (S (S (S (S (S (S (S (S
    (S (S (S (S (S (S (S (S (S (S (S (S (S (S (S (S (S (S (S (S (S (S (S (S
    (S (S (S (S (S (S (S (S (S (S (S (S (S (S (S (S (S (S (S (S (S (S (S (S
    (S (S (S (S (S (S (S (S (S (S (S (S (S (S (S (S (S (S (S (S (S (S (S (S
    (S (S (S (S (S (S (S (S (S (S (S (S (S (S (S (S (S (S (S (S (S (S (S (S
    (S (S (S (S (S (S (S (S (S (S (S (S (S (S (S (S (S (S (S (S (S (S (S (S
    (S (S (S (S (S (S (S (S (S (S (S (S
    O))))))))))))))))))))))))))))))))))))))))))))))))))))))))))))))))))))))))))))))))))))))))))))))))))))))))))))))))))))))))))))))))))))))))))))))))))))))))))))
| X9e ->
  S (S (S (S (S (S (S (S (S (S (S (S (S (S (S (S (S (S (S (S (S (S (S (S (S
    (S (S (S (S (S (S (S (S (S (S (S (S (S (S (S (S (S (S (S (S (S (S (S (S
    (S (S (S (S (S (S (S (S (S (S (S (S (S (S (S (S (S (S (S (S (S (S (S (S
    (S (S (S (S (S (S (S (S (S (S (S (S (S (S (S (S (S (S (S (S (S (S (S (S
    (S (S (S (S (S (S (S (S (S (S (S (S (S (S (S (S (S (S (S (S (S (S (S (S
    (S (S (S (S (S (S (S (S (S (S (S (S (S (S (S (S (S (S (S (S (S (S (S (S
    (S (S (S (S (S (S (S (S (S (S (S (S (S
    O)))))))))))))))))))))))))))))))))))))))))))))))))))))))))))))))))))))))))))))))))))))))))))))))))))))))))))))))))))))))))))))))))))))))))))))))))))))))))))))
| X9f ->
  S (S (S (S (S (S (S (S (S (S (S (S (S (S (S (S (S (S (S (S (S (S (S (S (S
    (S (S (S (S (S (S (S (S (S (S (S (S (S (S (S (S (S (S (S (S (S (S (S (S
    (S (S (S (S (S (S (S (S (S (S (S (S (S (S (S (S (S (S (S (S (S (S (S (S
    (S (S (S (S (S (S (S (S (S (S (S (S (S (S (S (S (S (S (S (S (S (S (S (S
    (S (S (S (S (S (S (S (S (S (S (S (S (S (S (S (S (S (S (S (S (S (S (S (S
    (S (S (S (S (S (S (S (S (S (S (S (S (S (S (S (S (S (S (S (S (S (S (S (S
    (S (S (S (S (S (S (S (S (S (S (S (S (S (S
    O))))))))))))))))))))))))))))))))))))))))))))))))))))))))))))))))))))))))))))))))))))))))))))))))))))))))))))))))))))))))))))))))))))))))))))))))))))))))))))))
| Xa0 ->
  S (S (S (S (S (S (S (S (S (S (S (S (S (S (S (S (S (S (S (S (S (S (S (S (S
    (S (S (S (S (S (S (S (S (S (S (S (S (S (S (S (S (S (S (S (S (S (S (S (S
    (S (S (S (S (S (S (S (S (S (S (S (S (S (S (S (S (S (S (S (S (S (S (S (S
    (S (S (S (S (S (S (S (S (S (S (S (S (S (S (S (S (S (S (S (S (S (S (S (S
    (S (S (S (S (S (S (S (S (S (S (S (S (S (S (S (S (S (S (S (S (S (S (S (S
    (S (S (S (S (S (S (S (S (S (S (S (S (S (S (S (S (S (S (S (S (S (S (S (S
    (S (S (S (S (S (S (S (S (S (S (S (S (S (S (S
    O)))))))))))))))))))))))))))))))))))))))))))))))))))))))))))))))))))))))))))))))))))))))))))))))))))))))))))))))))))))))))))))))))))))))))))))))))))))))))))))))
| Xa1 ->
  S (S (S (S (S (S (S (S (S (S (S (S (S (S (S (S (S (S (S (S (S (S (S (S (S
    (S (S (S (S (S (S (S (S (S (S (S (S (S (S (S (S (S (S (S (S (S (S (S (S
    (S (S (S (S (S (S (S (S (S (S (S (S (S (S (S (S (S (S (S (S (S (S (S (S
    (S (S (S (S (S (S (S (S (S (S (S (S (S (S (S (S (S (S (S (S (S (S (S (S
    (S (S (S (S (S (S (S (S (S (S (S (S (S (S (S (S (S (S (S (S (S (S (S (S
    (S (S (S (S (S (S (S (S (S (S (S (S (S (S (S (S (S (S (S (S (S (S (S (S
    (S (S (S (S (S (S (S (S (S (S (S (S (S (S (S (S
    O))))))))))))))))))))))))))))))))))))))))))))))))))))))))))))))))))))))))))))))))))))))))))))))))))))))))))))))))))))))))))))))))))))))))))))))))))))))))))))))))
| Xa2 ->
  S (S (S (S (S (S (S (S (S (S (S (S (S (S (S (S (S (S (S (S (S (S (S (S (S
    (S (S (S (S (S (S (S (S (S (S (S (S (S (S (S (S (S (S (S (S (S (S (S (S
    (S (S (S (S (S (S (S (S (S (S (S (S (S (S (S (S (S (S (S (S (S (S (S (S
    (S (S (S (S (S (S (S (S (S (S (S (S (S (S (S (S (S (S (S (S (S (S (S (S
    (S (S (S (S (S (S (S (S (S (S (S (S (S (S (S (S (S (S (S (S (S (S (S (S
    (S (S (S (S (S (S (S (S (S (S (S (S (S (S (S (S (S (S (S (S (S (S (S (S
    (S (S (S (S (S (S (S (S (S (S (S (S (S (S (S (S (S
    O)))))))))))))))))))))))))))))))))))))))))))))))))))))))))))))))))))))))))))))))))))))))))))))))))))))))))))))))))))))))))))))))))))))))))))))))))))))))))))))))))
| Xa3 ->
  S (S (S (S (S (S (S (S (S (S (S (S (S (S (S (S (S (S (S (S (S (S (S (S (S
    (S (S (S (S (S (S (S (S (S (S (S (S (S (S (S (S (S (S (S (S (S (S (S (S
    (S (S (S (S (S (S (S (S (S (S (S (S (S (S (S (S (S (S (S (S (S (S (S (S
    (S (S (S (S (S (S (S (S (S (S (S (S (S (S (S (S (S (S (S (S (S (S (S (S
    (S (S (S (S (S (S (S (S (S (S (S (S (S (S (S (S (S (S (S (S (S (S (S (S
    (S (S (S (S (S (S (S (S (S (S (S (S (S (S (S (S (S (S (S (S (S (S (S (S
    (S (S (S (S (S (S (S (S (S (S (S (S (S (S (S (S (S (S
    O))))))))))))))))))))))))))))))))))))))))))))))))))))))))))))))))))))))))))))))))))))))))))))))))))))))))))))))))))))))))))))))))))))))))))))))))))))))))))))))))))
| Xa4 ->
  S (S (S (S (S (S (S (S (S (S (S (S (S (S (S (S (S (S (S (S (S (S (S (S (S
    (S (S (S (S (S (S (S (S (S (S (S (S (S (S (S (S (S (S (S (S (S (S (S (S
    (S (S (S (S (S (S (S (S (S (S (S (S (S (S (S (S (S (S (S (S (S (S (S (S
    (S (S (S (S (S (S (S (S (S (S (S (S (S (S (S (S (S (S (S (S (S (S (S (S
    (S (S (S (S (S (S (S (S (S (S (S (S (S (S (S (S (S (S (S (S (S (S (S (S
    (S (S (S (S (S (S (S (S (S (S (S (S (S (S (S (S (S (S (S (S (S (S (S (S
    (S (S (S (S (S (S (S (S (S (S (S (S (S (S (S (S (S (S (S
    O)))))))))))))))))))))))))))))))))))))))))))))))))))))))))))))))))))))))))))))))))))))))))))))))))))))))))))))))))))))))))))))))))))))))))))))))))))))))))))))))))))
| Xa5 ->
  S (S (S (S (S (S (S (S (S (S (S (S (S (S (S (S (S (S (S (S (S (S (S (S (S
    (S (S (S (S (S (S (S (S (S (S (S (S (S (S (S (S (S (S (S (S (S (S (S (S
    (S (S (S (S (S (S (S (S (S (S (S (S (S (S (S (S (S (S (S (S (S (S (S (S
    (S (S (S (S (S (S (S (S (S (S (S (S (S (S (S (S (S (S (S (S (S (S (S (S
    (S (S (S (S (S (S (S (S (S (S (S (S (S (S (S (S (S (S (S (S (S (S (S (S
    (S (S (S (S (S (S (S (S (S (S (S (S (S (S (S (S (S (S (S (S (S (S (S (S
    (S (S (S (S (S (S (S (S (S (S (S (S (S (S (S (S (S (S (S (S
    O))))))))))))))))))))))))))))))))))))))))))))))))))))))))))))))))))))))))))))))))))))))))))))))))))))))))))))))))))))))))))))))))))))))))))))))))))))))))))))))))))))
| Xa6 ->
  S (S (S (S (S (S (S (S (S (S (S (S (S (S (S (S (S (S (S (S (S (S (S (S (S
    (S (S (S (S (S (S (S (S (S (S (S (S (S (S (S (S (S (S (S (S (S (S (S (S
    (S (S (S (S (S (S (S (S (S (S (S (S (S (S (S (S (S (S (S (S (S (S (S (S
    (S (S (S (S (S (S (S (S (S (S (S (S (S (S (S (S (S (S (S (S (S (S (S (S
    (S (S (S (S (S (S (S (S (S (S (S (S (S (S (S (S (S (S (S (S (S (S (S (S
    (S (S (S (S (S (S (S (S (S (S (S (S (S (S (S (S (S (S (S (S (S (S (S (S
    (S (S (S (S (S (S (S (S (S (S (S (S (S (S (S (S (S (S (S (S (S
    O)))))))))))))))))))))))))))))))))))))))))))))))))))))))))))))))))))))))))))))))))))))))))))))))))))))))))))))))))))))))))))))))))))))))))))))))))))))))))))))))))))))
| Xa7 ->
  S (S (S (S (S (S (S (S (S (S (S (S (S (S (S (S (S (S (S (S (S (S (S (S (S
    (S (S (S (S (S (S (S (S (S (S (S (S (S (S (S (S (S (S (S (S (S (S (S (S
    (S (S (S (S (S (S (S (S (S (S (S (S (S (S (S (S (S (S (S (S (S (S (S (S
    (S (S (S (S (S (S (S (S (S (S (S (S (S (S (S (S (S (S (S (S (S (S (S (S
    (S (S (S (S (S (S (S (S (S (S (S (S (S (S (S (S (S (S (S (S (S (S (S (S
    (S (S (S (S (S (S (S (S (S (S (S (S (S (S (S (S (S (S (S (S (S (S (S (S
    (S (S (S (S (S (S (S (S (S (S (S (S (S (S (S (S (S (S (S (S (S (S
    O))))))))))))))))))))))))))))))))))))))))))))))))))))))))))))))))))))))))))))))))))))))))))))))))))))))))))))))))))))))))))))))))))))))))))))))))))))))))))))))))))))))
| Xa8 ->
  S (S (S (S (S (S (S (S (S (S (S (S (S (S (S (S (S (S (S (S (S (S (S (S (S
    (S (S (S (S (S (S (S (S (S (S (S (S (S (S (S (S (S (S (S (S (S (S (S (S
    (S (S (S (S (S (S (S (S (S (S (S (S (S (S (S (S (S (S (S (S (S (S (S (S
    (S (S (S (S (S (S (S (S (S (S (S (S (S (S (S (S (S (S (S (S (S (S (S (S
    (S (S (S (S (S (S (S (S (S (S (S (S (S (S (S (S (S (S (S (S (S (S (S (S
    (S (S (S (S (S (S (S (S (S (S (S (S (S (S (S (S (S (S (S (S (S (S (S (S
    (S (S (S (S (S (S (S (S (S (S (S (S (S (S (S (S (S (S (S (S (S (S (S
    O)))))))))))))))))))))))))))))))))))))))))))))))))))))))))))))))))))))))))))))))))))))))))))))))))))))))))))))))))))))))))))))))))))))))))))))))))))))))))))))))))))))))
| Xa9 ->
  S (S (S (S (S (S (S (S (S (S (S (S (S (S (S (S (S (S (S (S (S (S (S (S (S
    (S (S (S (S (S (S (S (S (S (S (S (S (S (S (S (S (S (S (S (S (S (S (S (S
    (S (S (S (S (S (S (S (S (S (S (S (S (S (S (S (S (S (S (S (S (S (S (S (S
    (S (S (S (S (S (S (S (S (S (S (S (S (S (S (S (S (S (S (S (S (S (S (S (S
    (S (S (S (S (S (S (S (S (S (S (S (S (S (S (S (S (S (S (S (S (S (S (S (S
    (S (S (S (S (S (S (S (S (S (S (S (S (S (S (S (S (S (S (S (S (S (S (S (S
    (S (S (S (S (S (S (S (S (S (S (S (S (S (S (S (S (S (S (S (S (S (S (S (S
    O))))))))))))))))))))))))))))))))))))))))))))))))))))))))))))))))))))))))))))))))))))))))))))))))))))))))))))))))))))))))))))))))))))))))))))))))))))))))))))))))))))))))
| Xaa ->
  S (S (S (S (S (S (S (S (S (S (S (S (S (S (S (S (S (S (S (S (S (S (S (S (S
    (S (S (S (S (S (S (S (S (S (S (S (S (S (S (S (S (S (S (S (S (S (S (S (S
    (S (S (S (S (S (S (S (S (S (S (S (S (S (S (S (S (S (S (S (S (S (S (S (S
    (S (S (S (S (S (S (S (S (S (S (S (S (S (S (S (S (S (S (S (S (S (S (S (S
    (S (S (S (S (S (S (S (S (S (S (S (S (S (S (S (S (S (S (S (S (S (S (S (S
    (S (S (S (S (S (S (S (S (S (S (S (S (S (S (S (S (S (S (S (S (S (S (S (S
    (S (S (S (S (S (S (S (S (S (S (S (S (S (S (S (S (S (S (S (S (S (S (S (S
    (S
    O)))))))))))))))))))))))))))))))))))))))))))))))))))))))))))))))))))))))))))))))))))))))))))))))))))))))))))))))))))))))))))))))))))))))))))))))))))))))))))))))))))))))))
| Xab ->
  S (S (S (S (S (S (S (S (S (S (S (S (S (S (S (S (S (S (S (S (S (S (S (S (S
    (S (S (S (S (S (S (S (S (S (S (S (S (S (S (S (S (S (S (S (S (S (S (S (S
    (S (S (S (S (S (S (S (S (S (S (S (S (S (S (S (S (S (S (S (S (S (S (S (S
    (S (S (S (S (S (S (S (S (S (S (S (S (S (S (S (S (S (S (S (S (S (S (S (S
    (S (S (S (S (S (S (S (S (S (S (S (S (S (S (S (S (S (S (S (S (S (S (S (S
    (S (S (S (S (S (S (S (S (S (S (S (S (S (S (S (S (S (S (S (S (S (S (S (S
    (S (S (S (S (S (S (S (S (S (S (S (S (S (S (S (S (S (S (S (S (S (S (S (S
    (S (S
    O))))))))))))))))))))))))))))))))))))))))))))))))))))))))))))))))))))))))))))))))))))))))))))))))))))))))))))))))))))))))))))))))))))))))))))))))))))))))))))))))))))))))))
| Xac ->
  S (S (S (S (S (S (S (S (S (S (S (S (S (S (S (S (S (S (S (S (S (S (S (S (S
    (S (S (S (S (S (S (S (S (S (S (S (S (S (S (S (S (S (S (S (S (S (S (S (S
    (S (S (S (S (S (S (S (S (S (S (S (S (S (S (S (S (S (S (S (S (S (S (S (S
    (S (S (S (S (S (S (S (S (S (S (S (S (S (S (S (S (S (S (S (S (S (S (S (S
    (S (S (S (S (S (S (S (S (S (S (S (S (S (S (S (S (S (S (S (S (S (S (S (S
    (S (S (S (S (S (S (S (S (S (S (S (S (S (S (S (S (S (S (S (S (S (S (S (S
    (S (S (S (S (S (S (S (S (S (S (S (S (S (S (S (S (S (S (S (S (S (S (S (S
    (S (S (S
    O)))))))))))))))))))))))))))))))))))))))))))))))))))))))))))))))))))))))))))))))))))))))))))))))))))))))))))))))))))))))))))))))))))))))))))))))))))))))))))))))))))))))))))
| Xad ->
  S (S (S (S (S (S (S (S (S (S (S (S (S (S (S (S (S (S (S (S (S (S (S (S (S
    (S (S (S (S (S (S (S (S (S (S (S (S (S (S (S (S (S (S (S (S (S (S (S (S
    (S (S (S (S (S (S (S (S (S (S (S (S (S (S (S (S (S (S (S (S (S (S (S (S
    (S (S (S (S (S (S (S (S (S (S (S (S (S (S (S (S (S (S (S (S (S (S (S (S
    (S (S (S (S (S (S (S (S (S (S (S (S (S (S (S (S (S (S (S (S (S (S (S (S
    (S (S (S (S (S (S (S (S (S (S (S (S (S (S (S (S (S (S (S (S (S (S (S (S
    (S (S (S (S (S (S (S (S (S (S (S (S (S (S (S (S (S (S (S (S (S (S (S (S
    (S (S (S (S
    O))))))))))))))))))))))))))))))))))))))))))))))))))))))))))))))))))))))))))))))))))))))))))))))))))))))))))))))))))))))))))))))))))))))))))))))))))))))))))))))))))))))))))))
| Xae ->
  S (S (S (S (S (S (S (S (S (S (S (S (S (S (S (S (S (S (S (S (S (S (S (S (S
    (S (S (S (S (S (S (S (S (S (S (S (S (S (S (S (S (S (S (S (S (S (S (S (S
    (S (S (S (S (S (S (S (S (S (S (S (S (S (S (S (S (S (S (S (S (S (S (S (S
    (S (S (S (S (S (S (S (S (S (S (S (S (S (S (S (S (S (S (S (S (S (S (S (S
    (S (S (S (S (S (S (S (S (S (S (S (S (S (S (S (S (S (S (S (S (S (S (S (S
    (S (S (S (S (S (S (S (S (S (S (S (S (S (S (S (S (S (S (S (S (S (S (S (S
    (S (S (S (S (S (S (S (S (S (S (S (S (S (S (S (S (S (S (S (S (S (S (S (S
    (S (S (S (S (S
    O)))))))))))))))))))))))))))))))))))))))))))))))))))))))))))))))))))))))))))))))))))))))))))))))))))))))))))))))))))))))))))))))))))))))))))))))))))))))))))))))))))))))))))))
| Xaf ->
  S (S (S (S (S (S (S (S (S (S (S (S (S (S (S (S (S (S (S (S (S (S (S (S (S
    (S (S (S (S (S (S (S (S (S (S (S (S (S (S (S (S (S (S (S (S (S (S (S (S
    (S (S (S (S (S (S (S (S (S (S (S (S (S (S (S (S (S (S (S (S (S (S (S (S
    (S (S (S (S (S (S (S (S (S (S (S (S (S (S (S (S (S (S (S (S (S (S (S (S
    (S (S (S (S (S (S (S (S (S (S (S (S (S (S (S (S (S (S (S (S (S (S (S (S
    (S (S (S (S (S (S (S (S (S (S (S (S (S (S (S (S (S (S (S (S (S (S (S (S
    (S (S (S (S (S (S (S (S (S (S (S (S (S (S (S (S (S (S (S (S (S (S (S (S
    (S (S (S (S (S (S
    O))))))))))))))))))))))))))))))))))))))))))))))))))))))))))))))))))))))))))))))))))))))))))))))))))))))))))))))))))))))))))))))))))))))))))))))))))))))))))))))))))))))))))))))
| Xb0 ->
  S (S (S (S (S (S (S (S (S (S (S (S (S (S (S (S (S (S (S (S (S (S (S (S (S
    (S (S (S (S (S (S (S (S (S (S (S (S (S (S (S (S (S (S (S (S (S (S (S (S
    (S (S (S (S (S (S (S (S (S (S (S (S (S (S (S (S (S (S (S (S (S (S (S (S
    (S (S (S (S (S (S (S (S (S (S (S (S (S (S (S (S (S (S (S (S (S (S (S (S
    (S (S (S (S (S (S (S (S (S (S (S (S (S (S (S (S (S (S (S (S (S (S (S (S
    (S (S (S (S (S (S (S (S (S (S (S (S (S (S (S (S (S (S (S (S (S (S (S (S
    (S (S (S (S (S (S (S (S (S (S (S (S (S (S (S (S (S (S (S (S (S (S (S (S
    (S (S (S (S (S (S (S
    O)))))))))))))))))))))))))))))))))))))))))))))))))))))))))))))))))))))))))))))))))))))))))))))))))))))))))))))))))))))))))))))))))))))))))))))))))))))))))))))))))))))))))))))))
| Xb1 ->
  S (S (S (S (S (S (S (S (S (S (S (S (S (S (S (S (S (S (S (S (S (S (S (S (S
    (S (S (S (S (S (S (S (S (S (S (S (S (S (S (S (S (S (S (S (S (S (S (S (S
    (S (S (S (S (S (S (S (S (S (S (S (S (S (S (S (S (S (S (S (S (S (S (S (S
    (S (S (S (S (S (S (S (S (S (S (S (S (S (S (S (S (S (S (S (S (S (S (S (S
    (S (S (S (S (S (S (S (S (S (S (S (S (S (S (S (S (S (S (S (S (S (S (S (S
    (S (S (S (S (S (S (S (S (S (S (S (S (S (S (S (S (S (S (S (S (S (S (S (S
    (S (S (S (S (S (S (S (S (S (S (S (S (S (S (S (S (S (S (S (S (S (S (S (S
    (S (S (S (S (S (S (S (S
    O))))))))))))))))))))))))))))))))))))))))))))))))))))))))))))))))))))))))))))))))))))))))))))))))))))))))))))))))))))))))))))))))))))))))))))))))))))))))))))))))))))))))))))))))
| Xb2 ->
  S (S (S (S (S (S (S (S (S (S (S (S (S (S (S (S (S (S (S (S (S (S (S (S (S
    (S (S (S (S (S (S (S (S (S (S (S (S (S (S (S (S (S (S (S (S (S (S (S (S
    (S (S (S (S (S (S (S (S (S (S (S (S (S (S (S (S (S (S (S (S (S (S (S (S
    (S (S (S (S (S (S (S (S (S (S (S (S (S (S (S (S (S (S (S (S (S (S (S (S
    (S (S (S (S (S (S (S (S (S (S (S (S (S (S (S (S (S (S (S (S (S (S (S (S
    (S (S (S (S (S (S (S (S (S (S (S (S (S (S (S (S (S (S (S (S (S (S (S (S
    (S (S (S (S (S (S (S (S (S (S (S (S (S (S (S (S (S (S (S (S (S (S (S (S
    (S (S (S (S (S (S (S (S (S
    O)))))))))))))))))))))))))))))))))))))))))))))))))))))))))))))))))))))))))))))))))))))))))))))))))))))))))))))))))))))))))))))))))))))))))))))))))))))))))))))))))))))))))))))))))
| Xb3 ->
  S (S (S (S (S (S (S (S (S (S (S (S (S (S (S (S (S (S (S (S (S (S (S (S (S
    (S (S (S (S (S (S (S (S (S (S (S (S (S (S (S (S (S (S (S (S (S (S (S (S
    (S (S (S (S (S (S (S (S (S (S (S (S (S (S (S (S (S (S (S (S (S (S (S (S
    (S (S (S (S (S (S (S (S (S (S (S (S (S (S (S (S (S (S (S (S (S (S (S (S
    (S (S (S (S (S (S (S (S (S (S (S (S (S (S (S (S (S (S (S (S (S (S (S (S
    (S (S (S (S (S (S (S (S (S (S (S (S (S (S (S (S (S (S (S (S (S (S (S (S
    (S (S (S (S (S (S (S (S (S (S (S (S (S (S (S (S (S (S (S (S (S (S (S (S
    (S (S (S (S (S (S (S (S (S (S
    O))))))))))))))))))))))))))))))))))))))))))))))))))))))))))))))))))))))))))))))))))))))))))))))))))))))))))))))))))))))))))))))))))))))))))))))))))))))))))))))))))))))))))))))))))
| Xb4 ->
  S (S (S (S (S (S (S (S (S (S (S (S (S (S (S (S (S (S (S (S (S (S (S (S (S
    (S (S (S (S (S (S (S (S (S (S (S (S (S (S (S (S (S (S (S (S (S (S (S (S
    (S (S (S (S (S (S (S (S (S (S (S (S (S (S (S (S (S (S (S (S (S (S (S (S
    (S (S (S (S (S (S (S (S (S (S (S (S (S (S (S (S (S (S (S (S (S (S (S (S
    (S (S (S (S (S (S (S (S (S (S (S (S (S (S (S (S (S (S (S (S (S (S (S (S
    (S (S (S (S (S (S (S (S (S (S (S (S (S (S (S (S (S (S (S (S (S (S (S (S
    (S (S (S (S (S (S (S (S (S (S (S (S (S (S (S (S (S (S (S (S (S (S (S (S
    (S (S (S (S (S (S (S (S (S (S (S
    O)))))))))))))))))))))))))))))))))))))))))))))))))))))))))))))))))))))))))))))))))))))))))))))))))))))))))))))))))))))))))))))))))))))))))))))))))))))))))))))))))))))))))))))))))))
| Xb5 ->
  S (S (S (S (S (S (S (S (S (S (S (S (S (S (S (S (S (S (S (S (S (S (S (S (S
    (S (S (S (S (S (S (S (S (S (S (S (S (S (S (S (S (S (S (S (S (S (S (S (S
    (S (S (S (S (S (S (S (S (S (S (S (S (S (S (S (S (S (S (S (S (S (S (S (S
    (S (S (S (S (S (S (S (S (S (S (S (S (S (S (S (S (S (S (S (S (S (S (S (S
    (S (S (S (S (S (S (S (S (S (S (S (S (S (S (S (S (S (S (S (S (S (S (S (S
    (S (S (S (S (S (S (S (S (S (S (S (S (S (S (S (S (S (S (S (S (S (S (S (S
    (S (S (S (S (S (S (S (S (S (S (S (S (S (S (S (S (S (S (S (S (S (S (S (S
    (S (S (S (S (S (S (S (S (S (S (S (S
    O))))))))))))))))))))))))))))))))))))))))))))))))))))))))))))))))))))))))))))))))))))))))))))))))))))))))))))))))))))))))))))))))))))))))))))))))))))))))))))))))))))))))))))))))))))
| Xb6 ->
  S (S (S (S (S (S (S (S (S (S (S (S (S (S (S (S (S (S (S (S (S (S (S (S (S
    (S (S (S (S (S (S (S (S (S (S (S (S (S (S (S (S (S (S (S (S (S (S (S (S
    (S (S (S (S (S (S (S (S (S (S (S (S (S (S (S (S (S (S (S (S (S (S (S (S
    (S (S (S (S (S (S (S (S (S (S (S (S (S (S (S (S (S (S (S (S (S (S (S (S
    (S (S (S (S (S (S (S (S (S (S (S (S (S (S (S (S (S (S (S (S (S (S (S (S
    (S (S (S (S (S (S (S (S (S (S (S (S (S (S (S (S (S (S (S (S (S (S (S (S
    (S (S (S (S (S (S (S (S (S (S (S (S (S (S (S (S (S (S (S (S (S (S (S (S
    (S (S (S (S (S (S (S (S (S (S (S (S (S
    O)))))))))))))))))))))))))))))))))))))))))))))))))))))))))))))))))))))))))))))))))))))))))))))))))))))))))))))))))))))))))))))))))))))))))))))))))))))))))))))))))))))))))))))))))))))
| Xb7 ->
  S (S (S (S (S (S (S (S (S (S (S (S (S (S (S (S (S (S (S (S (S (S (S (S (S
    (S (S (S (S (S (S (S (S (S (S (S (S (S (S (S (S (S (S (S (S (S (S (S (S
    (S (S (S (S (S (S (S (S (S (S (S (S (S (S (S (S (S (S (S (S (S (S (S (S
    (S (S (S (S (S (S (S (S (S (S (S (S (S (S (S (S (S (S (S (S (S (S (S (S
    (S (S (S (S (S (S (S (S (S (S (S (S (S (S (S (S (S (S (S (S (S (S (S (S
    (S (S (S (S (S (S (S (S (S (S (S (S (S (S (S (S (S (S (S (S (S (S (S (S
    (S (S (S (S (S (S (S (S (S (S (S (S (S (S (S (S (S (S (S (S (S (S (S (S
    (S (S (S (S (S (S (S (S (S (S (S (S (S (S
    O))))))))))))))))))))))))))))))))))))))))))))))))))))))))))))))))))))))))))))))))))))))))))))))))))))))))))))))))))))))))))))))))))))))))))))))))))))))))))))))))))))))))))))))))))))))
| Xb8 ->
  S (S (S (S (S (S (S (S (S (S (S (S (S (S (S (S (S (S (S (S (S (S (S (S (S
    (S (S (S (S (S (S (S (S (S (S (S (S (S (S (S (S (S (S (S (S (S (S (S (S
    (S (S (S (S (S (S (S (S (S (S (S (S (S (S (S (S (S (S (S (S (S (S (S (S
    (S (S (S (S (S (S (S (S (S (S (S (S (S (S (S (S (S (S (S (S (S (S (S (S
    (S (S (S (S (S (S (S (S (S (S (S (S (S (S (S (S (S (S (S (S (S (S (S (S
    (S (S (S (S (S (S (S (S (S (S (S (S (S (S (S (S (S (S (S (S (S (S (S (S
    (S (S (S (S (S (S (S (S (S (S (S (S (S (S (S (S (S (S (S (S (S (S (S (S
    (S (S (S (S (S (S (S (S (S (S (S (S (S (S (S
    O)))))))))))))))))))))))))))))))))))))))))))))))))))))))))))))))))))))))))))))))))))))))))))))))))))))))))))))))))))))))))))))))))))))))))))))))))))))))))))))))))))))))))))))))))))))))
| Xb9 ->
  S (S (S (S (S (S (S (S (S (S (S (S (S (S (S (S (S (S (S (S (S (S (S (S (S
    (S (S (S (S (S (S (S (S (S (S (S (S (S (S (S (S (S (S (S (S (S (S (S (S
    (S (S (S (S (S (S (S (S (S (S (S (S (S (S (S (S (S (S (S (S (S (S (S (S
    (S (S (S (S (S (S (S (S (S (S (S (S (S (S (S (S (S (S (S (S (S (S (S (S
    (S (S (S (S (S (S (S (S (S (S (S (S (S (S (S (S (S (S (S (S (S (S (S (S
    (S (S (S (S (S (S (S (S (S (S (S (S (S (S (S (S (S (S (S (S (S (S (S (S
    (S (S (S (S (S (S (S (S (S (S (S (S (S (S (S (S (S (S (S (S (S (S (S (S
    (S (S (S (S (S (S (S (S (S (S (S (S (S (S (S (S
    O))))))))))))))))))))))))))))))))))))))))))))))))))))))))))))))))))))))))))))))))))))))))))))))))))))))))))))))))))))))))))))))))))))))))))))))))))))))))))))))))))))))))))))))))))))))))
| Xba ->
  S (S (S (S (S (S (S (S (S (S (S (S (S (S (S (S (S (S (S (S (S (S (S (S (S
    (S (S (S (S (S (S (S (S (S (S (S (S (S (S (S (S (S (S (S (S (S (S (S (S
    (S (S (S (S (S (S (S (S (S (S (S (S (S (S (S (S (S (S (S (S (S (S (S (S
    (S (S (S (S (S (S (S (S (S (S (S (S (S (S (S (S (S (S (S (S (S (S (S (S
    (S (S (S (S (S (S (S (S (S (S (S (S (S (S (S (S (S (S (S (S (S (S (S (S
    (S (S (S (S (S (S (S (S (S (S (S (S (S (S (S (S (S (S (S (S (S (S (S (S
    (S (S (S (S (S (S (S (S (S (S (S (S (S (S (S (S (S (S (S (S (S (S (S (S
    (S (S (S (S (S (S (S (S (S (S (S (S (S (S (S (S (S
    O)))))))))))))))))))))))))))))))))))))))))))))))))))))))))))))))))))))))))))))))))))))))))))))))))))))))))))))))))))))))))))))))))))))))))))))))))))))))))))))))))))))))))))))))))))))))))
| Xbb ->
  S (S (S (S (S (S (S (S (S (S (S (S (S (S (S (S (S (S (S (S (S (S (S (S (S
    (S (S (S (S (S (S (S (S (S (S (S (S (S (S (S (S (S (S (S (S (S (S (S (S
    (S (S (S (S (S (S (S (S (S (S (S (S (S (S (S (S (S (S (S (S (S (S (S (S
    (S (S (S (S (S (S (S (S (S (S (S (S (S (S (S (S (S (S (S (S (S (S (S (S
    (S (S (S (S (S (S (S (S (S (S (S (S (S (S (S (S (S (S (S (S (S (S (S (S
    (S (S (S (S (S (S (S (S (S (S (S (S (S (S (S (S (S (S (S (S (S (S (S (S
    (S (S (S (S (S (S (S (S (S (S (S (S (S (S (S (S (S (S (S (S (S (S (S (S
    (S (S (S (S (S (S (S (S (S (S (S (S (S (S (S (S (S (S
    O))))))))))))))))))))))))))))))))))))))))))))))))))))))))))))))))))))))))))))))))))))))))))))))))))))))))))))))))))))))))))))))))))))))))))))))))))))))))))))))))))))))))))))))))))))))))))
| Xbc ->
  S (S (S (S (S (S (S (S (S (S (S (S (S (S (S (S (S (S (S (S (S (S (S (S (S
    (S (S (S (S (S (S (S (S (S (S (S (S (S (S (S (S (S (S (S (S (S (S (S (S
    (S (S (S (S (S (S (S (S (S (S (S (S (S (S (S (S (S (S (S (S (S (S (S (S
    (S (S (S (S (S (S (S (S (S (S (S (S (S (S (S (S (S (S (S (S (S (S (S (S
    (S (S (S (S (S (S (S (S (S (S (S (S (S (S (S (S (S (S (S (S (S (S (S (S
    (S (S (S (S (S (S (S (S (S (S (S (S (S (S (S (S (S (S (S (S (S (S (S (S
    (S (S (S (S (S (S (S (S (S (S (S (S (S (S (S (S (S (S (S (S (S (S (S (S
    (S (S (S (S (S (S (S (S (S (S (S (S (S (S (S (S (S (S (S
    O)))))))))))))))))))))))))))))))))))))))))))))))))))))))))))))))))))))))))))))))))))))))))))))))))))))))))))))))))))))))))))))))))))))))))))))))))))))))))))))))))))))))))))))))))))))))))))
| Xbd ->
  S (S (S (S (S (S (S (S (S (S (S (S (S (S (S (S (S (S (S (S (S (S (S (S (S
    (S (S (S (S (S (S (S (S (S (S (S (S (S (S (S (S (S (S (S (S (S (S (S (S
    (S (S (S (S (S (S (S (S (S (S (S (S (S (S (S (S (S (S (S (S (S (S (S (S
    (S (S (S (S (S (S (S (S (S (S (S (S (S (S (S (S (S (S (S (S (S (S (S (S
    (S (S (S (S (S (S (S (S (S (S (S (S (S (S (S (S (S (S (S (S (S (S (S (S
    (S (S (S (S (S (S (S (S (S (S (S (S (S (S (S (S (S (S (S (S (S (S (S (S
    (S (S (S (S (S (S (S (S (S (S (S (S (S (S (S (S (S (S (S (S (S (S (S (S
    (S (S (S (S (S (S (S (S (S (S (S (S (S (S (S (S (S (S (S (S
    O))))))))))))))))))))))))))))))))))))))))))))))))))))))))))))))))))))))))))))))))))))))))))))))))))))))))))))))))))))))))))))))))))))))))))))))))))))))))))))))))))))))))))))))))))))))))))))
| Xbe ->
  S (S (S (S (S (S (S (S (S (S (S (S (S (S (S (S (S (S (S (S (S (S (S (S (S
    (S (S (S (S (S (S (S (S (S (S (S (S (S (S (S (S (S (S (S (S (S (S (S (S
    (S (S (S (S (S (S (S (S (S (S (S (S (S (S (S (S (S (S (S (S (S (S (S (S
    (S (S (S (S (S (S (S (S (S (S (S (S (S (S (S (S (S (S (S (S (S (S (S (S
    (S (S (S (S (S (S (S (S (S (S (S (S (S (S (S (S (S (S (S (S (S (S (S (S
    (S (S (S (S (S (S (S (S (S (S (S (S (S (S (S (S (S (S (S (S (S (S (S (S
    (S (S (S (S (S (S (S (S (S (S (S (S (S (S (S (S (S (S (S (S (S (S (S (S
    (S (S (S (S (S (S (S (S (S (S (S (S (S (S (S (S (S (S (S (S (S
    O)))))))))))))))))))))))))))))))))))))))))))))))))))))))))))))))))))))))))))))))))))))))))))))))))))))))))))))))))))))))))))))))))))))))))))))))))))))))))))))))))))))))))))))))))))))))))))))
| Xbf ->
  S (S (S (S (S (S (S (S (S (S (S (S (S (S (S (S (S (S (S (S (S (S (S (S (S
    (S (S (S (S (S (S (S (S (S (S (S (S (S (S (S (S (S (S (S (S (S (S (S (S
    (S (S (S (S (S (S (S (S (S (S (S (S (S (S (S (S (S (S (S (S (S (S (S (S
    (S (S (S (S (S (S (S (S (S (S (S (S (S (S (S (S (S (S (S (S (S (S (S (S
    (S (S (S (S (S (S (S (S (S (S (S (S (S (S (S (S (S (S (S (S (S (S (S (S
    (S (S (S (S (S (S (S (S (S (S (S (S (S (S (S (S (S (S (S (S (S (S (S (S
    (S (S (S (S (S (S (S (S (S (S (S (S (S (S (S (S (S (S (S (S (S (S (S (S
    (S (S (S (S (S (S (S (S (S (S (S (S (S (S (S (S (S (S (S (S (S (S
    O))))))))))))))))))))))))))))))))))))))))))))))))))))))))))))))))))))))))))))))))))))))))))))))))))))))))))))))))))))))))))))))))))))))))))))))))))))))))))))))))))))))))))))))))))))))))))))))
| Xc0 ->
  S (S (S (S (S (S (S (S (S (S (S (S (S (S (S (S (S (S (S (S (S (S (S (S (S
    (S (S (S (S (S (S (S (S (S (S (S (S (S (S (S (S (S (S (S (S (S (S (S (S
    (S (S (S (S (S (S (S (S (S (S (S (S (S (S (S (S (S (S (S (S (S (S (S (S
    (S (S (S (S (S (S (S (S (S (S (S (S (S (S (S (S (S (S (S (S (S (S (S (S
    (S (S (S (S (S (S (S (S (S (S (S (S (S (S (S (S (S (S (S (S (S (S (S (S
    (S (S (S (S (S (S (S (S (S (S (S (S (S (S (S (S (S (S (S (S (S (S (S (S
    (S (S (S (S (S (S (S (S (S (S (S (S (S (S (S (S (S (S (S (S (S (S (S (S
    (S (S (S (S (S (S (S (S (S (S (S (S (S (S (S (S (S (S (S (S (S (S (S
    O)))))))))))))))))))))))))))))))))))))))))))))))))))))))))))))))))))))))))))))))))))))))))))))))))))))))))))))))))))))))))))))))))))))))))))))))))))))))))))))))))))))))))))))))))))))))))))))))
| Xc1 ->
  S (S (S (S (S (S (S (S (S (S (S (S (S (S (S (S (S (S (S (S (S (S (S (S (S
    (S (S (S (S (S (S (S (S (S (S (S (S (S (S (S (S (S (S (S (S (S (S (S (S
    (S (S (S (S (S (S (S (S (S (S (S (S (S (S (S (S (S (S (S (S (S (S (S (S
    (S (S (S (S (S (S (S (S (S (S (S (S (S (S (S (S (S (S (S (S (S (S (S (S
    (S (S (S (S (S (S (S (S (S (S (S (S (S (S (S (S (S (S (S (S (S (S (S (S
    (S (S (S (S (S (S (S (S (S (S (S (S (S (S (S (S (S (S (S (S (S (S (S (S
    (S (S (S (S (S (S (S (S (S (S (S (S (S (S (S (S (S (S (S (S (S (S (S (S
    (S (S (S (S (S (S (S (S (S (S (S (S (S (S (S (S (S (S (S (S (S (S (S (S
    O))))))))))))))))))))))))))))))))))))))))))))))))))))))))))))))))))))))))))))))))))))))))))))))))))))))))))))))))))))))))))))))))))))))))))))))))))))))))))))))))))))))))))))))))))))))))))))))))
| Xc2 ->
  S (S (S (S (S (S (S (S (S (S (S (S (S (S (S (S (S (S (S (S (S (S (S (S (S
    (S (S (S (S (S (S (S (S (S (S (S (S (S (S (S (S (S (S (S (S (S (S (S (S
    (S (S (S (S (S (S (S (S (S (S (S (S (S (S (S (S (S (S (S (S (S (S (S (S
    (S (S (S (S (S (S (S (S (S (S (S (S (S (S (S (S (S (S (S (S (S (S (S (S
    (S (S (S (S (S (S (S (S (S (S (S (S (S (S (S (S (S (S (S (S (S (S (S (S
    (S (S (S (S (S (S (S (S (S (S (S (S (S (S (S (S (S (S (S (S (S (S (S (S
    (S (S (S (S (S (S (S (S (S (S (S (S (S (S (S (S (S (S (S (S (S (S (S (S
    (S (S (S (S (S (S (S (S (S (S (S (S (S (S (S (S (S (S (S (S (S (S (S (S
    (S
    O)))))))))))))))))))))))))))))))))))))))))))))))))))))))))))))))))))))))))))))))))))))))))))))))))))))))))))))))))))))))))))))))))))))))))))))))))))))))))))))))))))))))))))))))))))))))))))))))))
| Xc3 ->
  S (S (S (S (S (S (S (S (S (S (S (S (S (S (S (S (S (S (S (S (S (S (S (S (S
    (S (S (S (S (S (S (S (S (S (S (S (S (S (S (S (S (S (S (S (S (S (S (S (S
    (S (S (S (S (S (S (S (S (S (S (S (S (S (S (S (S (S (S (S (S (S (S (S (S
    (S (S (S (S (S (S (S (S (S (S (S (S (S (S (S (S (S (S (S (S (S (S (S (S
    (S (S (S (S (S (S (S (S (S (S (S (S (S (S (S (S (S (S (S (S (S (S (S (S
    (S (S (S (S (S (S (S (S (S (S (S (S (S (S (S (S (S (S (S (S (S (S (S (S
    (S (S (S (S (S (S (S (S (S (S (S (S (S (S (S (S (S (S (S (S (S (S (S (S
    (S (S (S (S (S (S (S (S (S (S (S (S (S (S (S (S (S (S (S (S (S (S (S (S
    (S (S
    O))))))))))))))))))))))))))))))))))))))))))))))))))))))))))))))))))))))))))))))))))))))))))))))))))))))))))))))))))))))))))))))))))))))))))))))))))))))))))))))))))))))))))))))))))))))))))))))))))
| Xc4 ->
  S (S (S (S (S (S (S (S (S (S (S (S (S (S (S (S (S (S (S (S (S (S (S (S (S
    (S (S (S (S (S (S (S (S (S (S (S (S (S (S (S (S (S (S (S (S (S (S (S (S
    (S (S (S (S (S (S (S (S (S (S (S (S (S (S (S (S (S (S (S (S (S (S (S (S
    (S (S (S (S (S (S (S (S (S (S (S (S (S (S (S (S (S (S (S (S (S (S (S (S
    (S (S (S (S (S (S (S (S (S (S (S (S (S (S (S (S (S (S (S (S (S (S (S (S
    (S (S (S (S (S (S (S (S (S (S (S (S (S (S (S (S (S (S (S (S (S (S (S (S
    (S (S (S (S (S (S (S (S (S (S (S (S (S (S (S (S (S (S (S (S (S (S (S (S
    (S (S (S (S (S (S (S (S (S (S (S (S (S (S (S (S (S (S (S (S (S (S (S (S
    (S (S (S
    O)))))))))))))))))))))))))))))))))))))))))))))))))))))))))))))))))))))))))))))))))))))))))))))))))))))))))))))))))))))))))))))))))))))))))))))))))))))))))))))))))))))))))))))))))))))))))))))))))))
| Xc5 ->
  S (S (S (S (S (S (S (S (S (S (S (S (S (S (S (S (S (S (S (S (S (S (S (S (S
    (S (S (S (S (S (S (S (S (S (S (S (S (S (S (S (S (S (S (S (S (S (S (S (S
    (S (S (S (S (S (S (S (S (S (S (S (S (S (S (S (S (S (S (S (S (S (S (S (S
    (S (S (S (S (S (S (S (S (S (S (S (S (S (S (S (S (S (S (S (S (S (S (S (S
    (S (S (S (S (S (S (S (S (S (S (S (S (S (S (S (S (S (S (S (S (S (S (S (S
    (S (S (S (S (S (S (S (S (S (S (S (S (S (S (S (S (S (S (S (S (S (S (S (S
    (S (S (S (S (S (S (S (S (S (S (S (S (S (S (S (S (S (S (S (S (S (S (S (S
    (S (S (S (S (S (S (S (S (S (S (S (S (S (S (S (S (S (S (S (S (S (S (S (S
    (S (S (S (S
    O))))))))))))))))))))))))))))))))))))))))))))))))))))))))))))))))))))))))))))))))))))))))))))))))))))))))))))))))))))))))))))))))))))))))))))))))))))))))))))))))))))))))))))))))))))))))))))))))))))
| Xc6 ->
  S (S (S (S (S (S (S (S (S (S (S (S (S (S (S (S (S (S (S (S (S (S (S (S (S
    (S (S (S (S (S (S (S (S (S (S (S (S (S (S (S (S (S (S (S (S (S (S (S (S
    (S (S (S (S (S (S (S (S (S (S (S (S (S (S (S (S (S (S (S (S (S (S (S (S
    (S (S (S (S (S (S (S (S (S (S (S (S (S (S (S (S (S (S (S (S (S (S (S (S
    (S (S (S (S (S (S (S (S (S (S (S (S (S (S (S (S (S (S (S (S (S (S (S (S
    (S (S (S (S (S (S (S (S (S (S (S (S (S (S (S (S (S (S (S (S (S (S (S (S
    (S (S (S (S (S (S (S (S (S (S (S (S (S (S (S (S (S (S (S (S (S (S (S (S
    (S (S (S (S (S (S (S (S (S (S (S (S (S (S (S (S (S (S (S (S (S (S (S (S
    (S (S (S (S (S
    O)))))))))))))))))))))))))))))))))))))))))))))))))))))))))))))))))))))))))))))))))))))))))))))))))))))))))))))))))))))))))))))))))))))))))))))))))))))))))))))))))))))))))))))))))))))))))))))))))))))
| Xc7 ->
  S (S (S (S (S (S (S (S (S (S (S (S (S (S (S (S (S (S (S (S (S (S (S (S (S
    (S (S (S (S (S (S (S (S (S (S (S (S (S (S (S (S (S (S (S (S (S (S (S (S
    (S (S (S (S (S (S (S (S (S (S (S (S (S (S (S (S (S (S (S (S (S (S (S (S
    (S (S (S (S (S (S (S (S (S (S (S (S (S (S (S (S (S (S (S (S (S (S (S (S
    (S (S (S (S (S (S (S (S (S (S (S (S (S (S (S (S (S (S (S (S (S (S (S (S
    (S (S (S (S (S (S (S (S (S (S (S (S (S (S (S (S (S (S (S (S (S (S (S (S
    (S (S (S (S (S (S (S (S (S (S (S (S (S (S (S (S (S (S (S (S (S (S (S (S
    (S (S (S (S (S (S (S (S (S (S (S (S (S (S (S (S (S (S (S (S (S (S (S (S
    (S (S (S (S (S (S
    O))))))))))))))))))))))))))))))))))))))))))))))))))))))))))))))))))))))))))))))))))))))))))))))))))))))))))))))))))))))))))))))))))))))))))))))))))))))))))))))))))))))))))))))))))))))))))))))))))))))
| Xc8 ->
  S (S (S (S (S (S (S (S (S (S (S (S (S (S (S (S (S (S (S (S (S (S (S (S (S
    (S (S (S (S (S (S (S (S (S (S (S (S (S (S (S (S (S (S (S (S (S (S (S (S
    (S (S (S (S (S (S (S (S (S (S (S (S (S (S (S (S (S (S (S (S (S (S (S (S
    (S (S (S (S (S (S (S (S (S (S (S (S (S (S (S (S (S (S (S (S (S (S (S (S
    (S (S (S (S (S (S (S (S (S (S (S (S (S (S (S (S (S (S (S (S (S (S (S (S
    (S (S (S (S (S (S (S (S (S (S (S (S (S (S (S (S (S (S (S (S (S (S (S (S
    (S (S (S (S (S (S (S (S (S (S (S (S (S (S (S (S (S (S (S (S (S (S (S (S
    (S (S (S (S (S (S (S (S (S (S (S (S (S (S (S (S (S (S (S (S (S (S (S (S
    (S (S (S (S (S (S (S
    O)))))))))))))))))))))))))))))))))))))))))))))))))))))))))))))))))))))))))))))))))))))))))))))))))))))))))))))))))))))))))))))))))))))))))))))))))))))))))))))))))))))))))))))))))))))))))))))))))))))))
| Xc9 ->
  S (S (S (S (S (S (S (S (S (S (S (S (S (S (S (S (S (S (S (S (S (S (S (S (S
    (S (S (S (S (S (S (S (S (S (S (S (S (S (S (S (S (S (S (S (S (S (S (S (S
    (S (S (S (S (S (S (S (S (S (S (S (S (S (S (S (S (S (S (S (S (S (S (S (S
    (S (S (S (S (S (S (S (S (S (S (S (S (S (S (S (S (S (S (S (S (S (S (S (S
    (S (S (S (S (S (S (S (S (S (S (S (S (S (S (S (S (S (S (S (S (S (S (S (S
    (S (S (S (S (S (S (S (S (S (S (S (S (S (S (S (S (S (S (S (S (S (S (S (S
    (S (S (S (S (S (S (S (S (S (S (S (S (S (S (S (S (S (S (S (S (S (S (S (S
    (S (S (S (S (S (S (S (S (S (S (S (S (S (S (S (S (S (S (S (S (S (S (S (S
    (S (S (S (S (S (S (S (S
    O))))))))))))))))))))))))))))))))))))))))))))))))))))))))))))))))))))))))))))))))))))))))))))))))))))))))))))))))))))))))))))))))))))))))))))))))))))))))))))))))))))))))))))))))))))))))))))))))))))))))
| Xca ->
  S (S (S (S (S (S (S (S (S (S (S (S (S (S (S (S (S (S (S (S (S (S (S (S (S
    (S (S (S (S (S (S (S (S (S (S (S (S (S (S (S (S (S (S (S (S (S (S (S (S
    (S (S (S (S (S (S (S (S (S (S (S (S (S (S (S (S (S (S (S (S (S (S (S (S
    (S (S (S (S (S (S (S (S (S (S (S (S (S (S (S (S (S (S (S (S (S (S (S (S
    (S (S (S (S (S (S (S (S (S (S (S (S (S (S (S (S (S (S (S (S (S (S (S (S
    (S (S (S (S (S (S (S (S (S (S (S (S (S (S (S (S (S (S (S (S (S (S (S (S
    (S (S (S (S (S (S (S (S (S (S (S (S (S (S (S (S (S (S (S (S (S (S (S (S
    (S (S (S (S (S (S (S (S (S (S (S (S (S (S (S (S (S (S (S (S (S (S (S (S
    (S (S (S (S (S (S (S (S (S
    O)))))))))))))))))))))))))))))))))))))))))))))))))))))))))))))))))))))))))))))))))))))))))))))))))))))))))))))))))))))))))))))))))))))))))))))))))))))))))))))))))))))))))))))))))))))))))))))))))))))))))
| Xcb ->
  S (S (S (S (S (S (S (S (S (S (S (S (S (S (S (S (S (S (S (S (S (S (S (S (S
    (S (S (S (S (S (S (S (S (S (S (S (S (S (S (S (S (S (S (S (S (S (S (S (S
    (S (S (S (S (S (S (S (S (S (S (S (S (S (S (S (S (S (S (S (S (S (S (S (S
    (S (S (S (S (S (S (S (S (S (S (S (S (S (S (S (S (S (S (S (S (S (S (S (S
    (S (S (S (S (S (S (S (S (S (S (S (S (S (S (S (S (S (S (S (S (S (S (S (S
    (S (S (S (S (S (S (S (S (S (S (S (S (S (S (S (S (S (S (S (S (S (S (S (S
    (S (S (S (S (S (S (S (S (S (S (S (S (S (S (S (S (S (S (S (S (S (S (S (S
    (S (S (S (S (S (S (S (S (S (S (S (S (S (S (S (S (S (S (S (S (S (S (S (S
    (S (S (S (S (S (S (S (S (S (S
    O))))))))))))))))))))))))))))))))))))))))))))))))))))))))))))))))))))))))))))))))))))))))))))))))))))))))))))))))))))))))))))))))))))))))))))))))))))))))))))))))))))))))))))))))))))))))))))))))))))))))))
| Xcc ->
  S (S (S (S (S (S (S (S (S (S (S (S (S (S (S (S (S (S (S (S (S (S (S (S (S
    (S (S (S (S (S (S (S (S (S (S (S (S (S (S (S (S (S (S (S (S (S (S (S (S
    (S (S (S (S (S (S (S (S (S (S (S (S (S (S (S (S (S (S (S (S (S (S (S (S
    (S (S (S (S (S (S (S (S (S (S (S (S (S (S (S (S (S (S (S (S (S (S (S (S
    (S (S (S (S (S (S (S (S (S (S (S (S (S (S (S (S (S (S (S (S (S (S (S (S
    (S (S (S (S (S (S (S (S (S (S (S (S (S (S (S (S (S (S (S (S (S (S (S (S
    (S (S (S (S (S (S (S (S (S (S (S (S (S (S (S (S (S (S (S (S (S (S (S (S
    (S (S (S (S (S (S (S (S (S (S (S (S (S (S (S (S (S (S (S (S (S (S (S (S
    (S (S (S (S (S (S (S (S (S (S (S
    O)))))))))))))))))))))))))))))))))))))))))))))))))))))))))))))))))))))))))))))))))))))))))))))))))))))))))))))))))))))))))))))))))))))))))))))))))))))))))))))))))))))))))))))))))))))))))))))))))))))))))))
| Xcd ->
  S (S (S (S (S (S (S (S (S (S (S (S (S (S (S (S (S (S (S (S (S (S (S (S (S
    (S (S (S (S (S (S (S (S (S (S (S (S (S (S (S (S (S (S (S (S (S (S (S (S
    (S (S (S (S (S (S (S (S (S (S (S (S (S (S (S (S (S (S (S (S (S (S (S (S
    (S (S (S (S (S (S (S (S (S (S (S (S (S (S (S (S (S (S (S (S (S (S (S (S
    (S (S (S (S (S (S (S (S (S (S (S (S (S (S (S (S (S (S (S (S (S (S (S (S
    (S (S (S (S (S (S (S (S (S (S (S (S (S (S (S (S (S (S (S (S (S (S (S (S
    (S (S (S (S (S (S (S (S (S (S (S (S (S (S (S (S (S (S (S (S (S (S (S (S
    (S (S (S (S (S (S (S (S (S (S (S (S (S (S (S (S (S (S (S (S (S (S (S (S
    (S (S (S (S (S (S (S (S (S (S (S (S
    O))))))))))))))))))))))))))))))))))))))))))))))))))))))))))))))))))))))))))))))))))))))))))))))))))))))))))))))))))))))))))))))))))))))))))))))))))))))))))))))))))))))))))))))))))))))))))))))))))))))))))))
| Xce ->
  S (S (S (S (S (S (S (S (S (S (S (S (S (S (S (S (S (S (S (S (S (S (S (S (S
    (S (S (S (S (S (S (S (S (S (S (S (S (S (S (S (S (S (S (S (S (S (S (S (S
    (S (S (S (S (S (S (S (S (S (S (S (S (S (S (S (S (S (S (S (S (S (S (S (S
    (S (S (S (S (S (S (S (S (S (S (S (S (S (S (S (S (S (S (S (S (S (S (S (S
    (S (S (S (S (S (S (S (S (S (S (S (S (S (S (S (S (S (S (S (S (S (S (S (S
    (S (S (S (S (S (S (S (S (S (S (S (S (S (S (S (S (S (S (S (S (S (S (S (S
    (S (S (S (S (S (S (S (S (S (S (S (S (S (S (S (S (S (S (S (S (S (S (S (S
    (S (S (S (S (S (S (S (S (S (S (S (S (S (S (S (S (S (S (S (S (S (S (S (S
    (S (S (S (S (S (S (S (S (S (S (S (S (S
    O)))))))))))))))))))))))))))))))))))))))))))))))))))))))))))))))))))))))))))))))))))))))))))))))))))))))))))))))))))))))))))))))))))))))))))))))))))))))))))))))))))))))))))))))))))))))))))))))))))))))))))))
| Xcf ->
  S (S (S (S (S (S (S (S (S (S (S (S (S (S (S (S (S (S (S (S (S (S (S (S (S
    (S (S (S (S (S (S (S (S (S (S (S (S (S (S (S (S (S (S (S (S (S (S (S (S
    (S (S (S (S (S (S (S (S (S (S (S (S (S (S (S (S (S (S (S (S (S (S (S (S
    (S (S (S (S (S (S (S (S (S (S (S (S (S (S (S (S (S (S (S (S (S (S (S (S
    (S (S (S (S (S (S (S (S (S (S (S (S (S (S (S (S (S (S (S (S (S (S (S (S
    (S (S (S (S (S (S (S (S (S (S (S (S (S (S (S (S (S (S (S (S (S (S (S (S
    (S (S (S (S (S (S (S (S (S (S (S (S (S (S (S (S (S (S (S (S (S (S (S (S
    (S (S (S (S (S (S (S (S (S (S (S (S (S (S (S (S (S (S (S (S (S (S (S (S
    (S (S (S (S (S (S (S (S (S (S (S (S (S (S
    O))))))))))))))))))))))))))))))))))))))))))))))))))))))))))))))))))))))))))))))))))))))))))))))))))))))))))))))))))))))))))))))))))))))))))))))))))))))))))))))))))))))))))))))))))))))))))))))))))))))))))))))
| Xd0 ->
  S (S (S (S (S (S (S (S (S (S (S (S (S (S (S (S (S (S (S (S (S (S (S (S (S
    (S (S (S (S (S (S (S (S (S (S (S (S (S (S (S (S (S (S (S (S (S (S (S (S
    (S (S (S (S (S (S (S (S (S (S (S (S (S (S (S (S (S (S (S (S (S (S (S (S
    (S (S (S (S (S (S (S (S (S (S (S (S (S (S (S (S (S (S (S (S (S (S (S (S
    (S (S (S (S (S (S (S (S (S (S (S (S (S (S (S (S (S (S (S (S (S (S (S (S
    (S (S (S (S (S (S (S (S (S (S (S (S (S (S (S (S (S (S (S (S (S (S (S (S
    (S (S (S (S (S (S (S (S (S (S (S (S (S (S (S (S (S (S (S (S (S (S (S (S
    (S (S (S (S (S (S (S (S (S (S (S (S (S (S (S (S (S (S (S (S (S (S (S (S
    (S (S (S (S (S (S (S (S (S (S (S (S (S (S (S
    O)))))))))))))))))))))))))))))))))))))))))))))))))))))))))))))))))))))))))))))))))))))))))))))))))))))))))))))))))))))))))))))))))))))))))))))))))))))))))))))))))))))))))))))))))))))))))))))))))))))))))))))))
| Xd1 ->
  S (S (S (S (S (S (S (S (S (S (S (S (S (S (S (S (S (S (S (S (S (S (S (S (S
    (S (S (S (S (S (S (S (S (S (S (S (S (S (S (S (S (S (S (S (S (S (S (S (S
    (S (S (S (S (S (S (S (S (S (S (S (S (S (S (S (S (S (S (S (S (S (S (S (S
    (S (S (S (S (S (S (S (S (S (S (S (S (S (S (S (S (S (S (S (S (S (S (S (S
    (S (S (S (S (S (S (S (S (S (S (S (S (S (S (S (S (S (S (S (S (S (S (S (S
    (S (S (S (S (S (S (S (S (S (S (S (S (S (S (S (S (S (S (S (S (S (S (S (S
    (S (S (S (S (S (S (S (S (S (S (S (S (S (S (S (S (S (S (S (S (S (S (S (S
    (S (S (S (S (S (S (S (S (S (S (S (S (S (S (S (S (S (S (S (S (S (S (S (S
    (S (S (S (S (S (S (S (S (S (S (S (S (S (S (S (S
    O))))))))))))))))))))))))))))))))))))))))))))))))))))))))))))))))))))))))))))))))))))))))))))))))))))))))))))))))))))))))))))))))))))))))))))))))))))))))))))))))))))))))))))))))))))))))))))))))))))))))))))))))
| Xd2 ->
  S (S (S (S (S (S (S (S (S (S (S (S (S (S (S (S (S (S (S (S (S (S (S (S (S
    (S (S (S (S (S (S (S (S (S (S (S (S (S (S (S (S (S (S (S (S (S (S (S (S
    (S (S (S (S (S (S (S (S (S (S (S (S (S (S (S (S (S (S (S (S (S (S (S (S
    (S (S (S (S (S (S (S (S (S (S (S (S (S (S (S (S (S (S (S (S (S (S (S (S
    (S (S (S (S (S (S (S (S (S (S (S (S (S (S (S (S (S (S (S (S (S (S (S (S
    (S (S (S (S (S (S (S (S (S (S (S (S (S (S (S (S (S (S (S (S (S (S (S (S
    (S (S (S (S (S (S (S (S (S (S (S (S (S (S (S (S (S (S (S (S (S (S (S (S
    (S (S (S (S (S (S (S (S (S (S (S (S (S (S (S (S (S (S (S (S (S (S (S (S
    (S (S (S (S (S (S (S (S (S (S (S (S (S (S (S (S (S
    O)))))))))))))))))))))))))))))))))))))))))))))))))))))))))))))))))))))))))))))))))))))))))))))))))))))))))))))))))))))))))))))))))))))))))))))))))))))))))))))))))))))))))))))))))))))))))))))))))))))))))))))))))
| Xd3 ->
  S (S (S (S (S (S (S (S (S (S (S (S (S (S (S (S (S (S (S (S (S (S (S (S (S
    (S (S (S (S (S (S (S (S (S (S (S (S (S (S (S (S (S (S (S (S (S (S (S (S
    (S (S (S (S (S (S (S (S (S (S (S (S (S (S (S (S (S (S (S (S (S (S (S (S
    (S (S (S (S (S (S (S (S (S (S (S (S (S (S (S (S (S (S (S (S (S (S (S (S
    (S (S (S (S (S (S (S (S (S (S (S (S (S (S (S (S (S (S (S (S (S (S (S (S
    (S (S (S (S (S (S (S (S (S (S (S (S (S (S (S (S (S (S (S (S (S (S (S (S
    (S (S (S (S (S (S (S (S (S (S (S (S (S (S (S (S (S (S (S (S (S (S (S (S
    (S (S (S (S (S (S (S (S (S (S (S (S (S (S (S (S (S (S (S (S (S (S (S (S
    (S (S (S (S (S (S (S (S (S (S (S (S (S (S (S (S (S (S
    O))))))))))))))))))))))))))))))))))))))))))))))))))))))))))))))))))))))))))))))))))))))))))))))))))))))))))))))))))))))))))))))))))))))))))))))))))))))))))))))))))))))))))))))))))))))))))))))))))))))))))))))))))
| Xd4 ->
  S (S (S (S (S (S (S (S (S (S (S (S (S (S (S (S (S (S (S (S (S (S (S (S (S
    (S (S (S (S (S (S (S (S (S (S (S (S (S (S (S (S (S (S (S (S (S (S (S (S
    (S (S (S (S (S (S (S (S (S (S (S (S (S (S (S (S (S (S (S (S (S (S (S (S
    (S (S (S (S (S (S (S (S (S (S (S (S (S (S (S (S (S (S (S (S (S (S (S (S
    (S (S (S (S (S (S (S (S (S (S (S (S (S (S (S (S (S (S (S (S (S (S (S (S
    (S (S (S (S (S (S (S (S (S (S (S (S (S (S (S (S (S (S (S (S (S (S (S (S
    (S (S (S (S (S (S (S (S (S (S (S (S (S (S (S (S (S (S (S (S (S (S (S (S
    (S (S (S (S (S (S (S (S (S (S (S (S (S (S (S (S (S (S (S (S (S (S (S (S
    (S (S (S (S (S (S (S (S (S (S (S (S (S (S (S (S (S (S (S
    O)))))))))))))))))))))))))))))))))))))))))))))))))))))))))))))))))))))))))))))))))))))))))))))))))))))))))))))))))))))))))))))))))))))))))))))))))))))))))))))))))))))))))))))))))))))))))))))))))))))))))))))))))))
| Xd5 ->
  S (S (S (S (S (S (S (S (S (S (S (S (S (S (S (S (S (S (S (S (S (S (S (S (S
    (S (S (S (S (S (S (S (S (S (S (S (S (S (S (S (S (S (S (S (S (S (S (S (S
    (S (S (S (S (S (S (S (S (S (S (S (S (S (S (S (S (S (S (S (S (S (S (S (S
    (S (S (S (S (S (S (S (S (S (S (S (S (S (S (S (S (S (S (S (S (S (S (S (S
    (S (S (S (S (S (S (S (S (S (S (S (S (S (S (S (S (S (S (S (S (S (S (S (S
    (S (S (S (S (S (S (S (S (S (S (S (S (S (S (S (S (S (S (S (S (S (S (S (S
    (S (S (S (S (S (S (S (S (S (S (S (S (S (S (S (S (S (S (S (S (S (S (S (S
    (S (S (S (S (S (S (S (S (S (S (S (S (S (S (S (S (S (S (S (S (S (S (S (S
    (S (S (S (S (S (S (S (S (S (S (S (S (S (S (S (S (S (S (S (S
    O))))))))))))))))))))))))))))))))))))))))))))))))))))))))))))))))))))))))))))))))))))))))))))))))))))))))))))))))))))))))))))))))))))))))))))))))))))))))))))))))))))))))))))))))))))))))))))))))))))))))))))))))))))
| Xd6 ->
  S (S (S (S (S (S (S (S (S (S (S (S (S (S (S (S (S (S (S (S (S (S (S (S (S
    (S (S (S (S (S (S (S (S (S (S (S (S (S (S (S (S (S (S (S (S (S (S (S (S
    (S (S (S (S (S (S (S (S (S (S (S (S (S (S (S (S (S (S (S (S (S (S (S (S
    (S (S (S (S (S (S (S (S (S (S (S (S (S (S (S (S (S (S (S (S (S (S (S (S
    (S (S (S (S (S (S (S (S (S (S (S (S (S (S (S (S (S (S (S (S (S (S (S (S
    (S (S (S (S (S (S (S (S (S (S (S (S (S (S (S (S (S (S (S (S (S (S (S (S
    (S (S (S (S (S (S (S (S (S (S (S (S (S (S (S (S (S (S (S (S (S (S (S (S
    (S (S (S (S (S (S (S (S (S (S (S (S (S (S (S (S (S (S (S (S (S (S (S (S
    (S (S (S (S (S (S (S (S (S (S (S (S (S (S (S (S (S (S (S (S (S
    O)))))))))))))))))))))))))))))))))))))))))))))))))))))))))))))))))))))))))))))))))))))))))))))))))))))))))))))))))))))))))))))))))))))))))))))))))))))))))))))))))))))))))))))))))))))))))))))))))))))))))))))))))))))
| Xd7 ->
  S (S (S (S (S (S (S (S (S (S (S (S (S (S (S (S (S (S (S (S (S (S (S (S (S
    (S (S (S (S (S (S (S (S (S (S (S (S (S (S (S (S (S (S (S (S (S (S (S (S
    (S (S (S (S (S (S (S (S (S (S (S (S (S (S (S (S (S (S (S (S (S (S (S (S
    (S (S (S (S (S (S (S (S (S (S (S (S (S (S (S (S (S (S (S (S (S (S (S (S
    (S (S (S (S (S (S (S (S (S (S (S (S (S (S (S (S (S (S (S (S (S (S (S (S
    (S (S (S (S (S (S (S (S (S (S (S (S (S (S (S (S (S (S (S (S (S (S (S (S
    (S (S (S (S (S (S (S (S (S (S (S (S (S (S (S (S (S (S (S (S (S (S (S (S
    (S (S (S (S (S (S (S (S (S (S (S (S (S (S (S (S (S (S (S (S (S (S (S (S
    (S (S (S (S (S (S (S (S (S (S (S (S (S (S (S (S (S (S (S (S (S (S
    O))))))))))))))))))))))))))))))))))))))))))))))))))))))))))))))))))))))))))))))))))))))))))))))))))))))))))))))))))))))))))))))))))))))))))))))))))))))))))))))))))))))))))))))))))))))))))))))))))))))))))))))))))))))
| Xd8 ->
  S (S (S (S (S (S (S (S (S (S (S (S (S (S (S (S (S (S (S (S (S (S (S (S (S
    (S (S (S (S (S (S (S (S (S (S (S (S (S (S (S (S (S (S (S (S (S (S (S (S
    (S (S (S (S (S (S (S (S (S (S (S (S (S (S (S (S (S (S (S (S (S (S (S (S
    (S (S (S (S (S (S (S (S (S (S (S (S (S (S (S (S (S (S (S (S (S (S (S (S
    (S (S (S (S (S (S (S (S (S (S (S (S (S (S (S (S (S (S (S (S (S (S (S (S
    (S (S (S (S (S (S (S (S (S (S (S (S (S (S (S (S (S (S (S (S (S (S (S (S
    (S (S (S (S (S (S (S (S (S (S (S (S (S (S (S (S (S (S (S (S (S (S (S (S
    (S (S (S (S (S (S (S (S (S (S (S (S (S (S (S (S (S (S (S (S (S (S (S (S
    (S (S (S (S (S (S (S (S (S (S (S (S (S (S (S (S (S (S (S (S (S (S (S
    O)))))))))))))))))))))))))))))))))))))))))))))))))))))))))))))))))))))))))))))))))))))))))))))))))))))))))))))))))))))))))))))))))))))))))))))))))))))))))))))))))))))))))))))))))))))))))))))))))))))))))))))))))))))))
| Xd9 ->
  S (S (S (S (S (S (S (S (S (S (S (S (S (S (S (S (S (S (S (S (S (S (S (S (S
    (S (S (S (S (S (S (S (S (S (S (S (S (S (S (S (S (S (S (S (S (S (S (S (S
    (S (S (S (S (S (S (S (S (S (S (S (S (S (S (S (S (S (S (S (S (S (S (S (S
    (S (S (S (S (S (S (S (S (S (S (S (S (S (S (S (S (S (S (S (S (S (S (S (S
    (S (S (S (S (S (S (S (S (S (S (S (S (S (S (S (S (S (S (S (S (S (S (S (S
    (S (S (S (S (S (S (S (S (S (S (S (S (S (S (S (S (S (S (S (S (S (S (S (S
    (S (S (S (S (S (S (S (S (S (S (S (S (S (S (S (S (S (S (S (S (S (S (S (S
    (S (S (S (S (S (S (S (S (S (S (S (S (S (S (S (S (S (S (S (S (S (S (S (S
    (S (S (S (S (S (S (S (S (S (S (S (S (S (S (S (S (S (S (S (S (S (S (S (S
    O))))))))))))))))))))))))))))))))))))))))))))))))))))))))))))))))))))))))))))))))))))))))))))))))))))))))))))))))))))))))))))))))))))))))))))))))))))))))))))))))))))))))))))))))))))))))))))))))))))))))))))))))))))))))
| Xda ->
  S (S (S (S (S (S (S (S (S (S (S (S (S (S (S (S (S (S (S (S (S (S (S (S (S
    (S (S (S (S (S (S (S (S (S (S (S (S (S (S (S (S (S (S (S (S (S (S (S (S
    (S (S (S (S (S (S (S (S (S (S (S (S (S (S (S (S (S (S (S (S (S (S (S (S
    (S (S (S (S (S (S (S (S (S (S (S (S (S (S (S (S (S (S (S (S (S (S (S (S
    (S (S (S (S (S (S (S (S (S (S (S (S (S (S (S (S (S (S (S (S (S (S (S (S
    (S (S (S (S (S (S (S (S (S (S (S (S (S (S (S (S (S (S (S (S (S (S (S (S
    (S (S (S (S (S (S (S (S (S (S (S (S (S (S (S (S (S (S (S (S (S (S (S (S
    (S (S (S (S (S (S (S (S (S (S (S (S (S (S (S (S (S (S (S (S (S (S (S (S
    (S (S (S (S (S (S (S (S (S (S (S (S (S (S (S (S (S (S (S (S (S (S (S (S
    (S
    O)))))))))))))))))))))))))))))))))))))))))))))))))))))))))))))))))))))))))))))))))))))))))))))))))))))))))))))))))))))))))))))))))))))))))))))))))))))))))))))))))))))))))))))))))))))))))))))))))))))))))))))))))))))))))
| Xdb ->
  S (S (S (S (S (S (S (S (S (S (S (S (S (S (S (S (S (S (S (S (S (S (S (S (S
    (S (S (S (S (S (S (S (S (S (S (S (S (S (S (S (S (S (S (S (S (S (S (S (S
    (S (S (S (S (S (S (S (S (S (S (S (S (S (S (S (S (S (S (S (S (S (S (S (S
    (S (S (S (S (S (S (S (S (S (S (S (S (S (S (S (S (S (S (S (S (S (S (S (S
    (S (S (S (S (S (S (S (S (S (S (S (S (S (S (S (S (S (S (S (S (S (S (S (S
    (S (S (S (S (S (S (S (S (S (S (S (S (S (S (S (S (S (S (S (S (S (S (S (S
    (S (S (S (S (S (S (S (S (S (S (S (S (S (S (S (S (S (S (S (S (S (S (S (S
    (S (S (S (S (S (S (S (S (S (S (S (S (S (S (S (S (S (S (S (S (S (S (S (S
    (S (S (S (S (S (S (S (S (S (S (S (S (S (S (S (S (S (S (S (S (S (S (S (S
    (S (S
    O))))))))))))))))))))))))))))))))))))))))))))))))))))))))))))))))))))))))))))))))))))))))))))))))))))))))))))))))))))))))))))))))))))))))))))))))))))))))))))))))))))))))))))))))))))))))))))))))))))))))))))))))))))))))))
| Xdc ->
  S (S (S (S (S (S (S (S (S (S (S (S (S (S (S (S (S (S (S (S (S (S (S (S (S
    (S (S (S (S (S (S (S (S (S (S (S (S (S (S (S (S (S (S (S (S (S (S (S (S
    (S (S (S (S (S (S (S (S (S (S (S (S (S (S (S (S (S (S (S (S (S (S (S (S
    (S (S (S (S (S (S (S (S (S (S (S (S (S (S (S (S (S (S (S (S (S (S (S (S
    (S (S (S (S (S (S (S (S (S (S (S (S (S (S (S (S (S (S (S (S (S (S (S (S
    (S (S (S (S (S (S (S (S (S (S (S (S (S (S (S (S (S (S (S (S (S (S (S (S
    (S (S (S (S (S (S (S (S (S (S (S (S (S (S (S (S (S (S (S (S (S (S (S (S
    (S (S (S (S (S (S (S (S (S (S (S (S (S (S (S (S (S (S (S (S (S (S (S (S
    (S (S (S (S (S (S (S (S (S (S (S (S (S (S (S (S (S (S (S (S (S (S (S (S
    (S (S (S
    O)))))))))))))))))))))))))))))))))))))))))))))))))))))))))))))))))))))))))))))))))))))))))))))))))))))))))))))))))))))))))))))))))))))))))))))))))))))))))))))))))))))))))))))))))))))))))))))))))))))))))))))))))))))))))))
| Xdd ->
  S (S (S (S (S (S (S (S (S (S (S (S (S (S (S (S (S (S (S (S (S (S (S (S (S
    (S (S (S (S (S (S (S (S (S (S (S (S (S (S (S (S (S (S (S (S (S (S (S (S
    (S (S (S (S (S (S (S (S (S (S (S (S (S (S (S (S (S (S (S (S (S (S (S (S
    (S (S (S (S (S (S (S (S (S (S (S (S (S (S (S (S (S (S (S (S (S (S (S (S
    (S (S (S (S (S (S (S (S (S (S (S (S (S (S (S (S (S (S (S (S (S (S (S (S
    (S (S (S (S (S (S (S (S (S (S (S (S (S (S (S (S (S (S (S (S (S (S (S (S
    (S (S (S (S (S (S (S (S (S (S (S (S (S (S (S (S (S (S (S (S (S (S (S (S
    (S (S (S (S (S (S (S (S (S (S (S (S (S (S (S (S (S (S (S (S (S (S (S (S
    (S (S (S (S (S (S (S (S (S (S (S (S (S (S (S (S (S (S (S (S (S (S (S (S
    (S (S (S (S
    O))))))))))))))))))))))))))))))))))))))))))))))))))))))))))))))))))))))))))))))))))))))))))))))))))))))))))))))))))))))))))))))))))))))))))))))))))))))))))))))))))))))))))))))))))))))))))))))))))))))))))))))))))))))))))))
| Xde ->
  S (S (S (S (S (S (S (S (S (S (S (S (S (S (S (S (S (S (S (S (S (S (S (S (S
    (S (S (S (S (S (S (S (S (S (S (S (S (S (S (S (S (S (S (S (S (S (S (S (S
    (S (S (S (S (S (S (S (S (S (S (S (S (S (S (S (S (S (S (S (S (S (S (S (S
    (S (S (S (S (S (S (S (S (S (S (S (S (S (S (S (S (S (S (S (S (S (S (S (S
    (S (S (S (S (S (S (S (S (S (S (S (S (S (S (S (S (S (S (S (S (S (S (S (S
    (S (S (S (S (S (S (S (S (S (S (S (S (S (S (S (S (S (S (S (S (S (S (S (S
    (S (S (S (S (S (S (S (S (S (S (S (S (S (S (S (S (S (S (S (S (S (S (S (S
    (S (S (S (S (S (S (S (S (S (S (S (S (S (S (S (S (S (S (S (S (S (S (S (S
    (S (S (S (S (S (S (S (S (S (S (S (S (S (S (S (S (S (S (S (S (S (S (S (S
    (S (S (S (S (S
    O)))))))))))))))))))))))))))))))))))))))))))))))))))))))))))))))))))))))))))))))))))))))))))))))))))))))))))))))))))))))))))))))))))))))))))))))))))))))))))))))))))))))))))))))))))))))))))))))))))))))))))))))))))))))))))))
| Xdf ->
  S (S (S (S (S (S (S (S (S (S (S (S (S (S (S (S (S (S (S (S (S (S (S (S (S
    (S (S (S (S (S (S (S (S (S (S (S (S (S (S (S (S (S (S (S (S (S (S (S (S
    (S (S (S (S (S (S (S (S (S (S (S (S (S (S (S (S (S (S (S (S (S (S (S (S
    (S (S (S (S (S (S (S (S (S (S (S (S (S (S (S (S (S (S (S (S (S (S (S (S
    (S (S (S (S (S (S (S (S (S (S (S (S (S (S (S (S (S (S (S (S (S (S (S (S
    (S (S (S (S (S (S (S (S (S (S (S (S (S (S (S (S (S (S (S (S (S (S (S (S
    (S (S (S (S (S (S (S (S (S (S (S (S (S (S (S (S (S (S (S (S (S (S (S (S
    (S (S (S (S (S (S (S (S (S (S (S (S (S (S (S (S (S (S (S (S (S (S (S (S
    (S (S (S (S (S (S (S (S (S (S (S (S (S (S (S (S (S (S (S (S (S (S (S (S
    (S (S (S (S (S (S
    O))))))))))))))))))))))))))))))))))))))))))))))))))))))))))))))))))))))))))))))))))))))))))))))))))))))))))))))))))))))))))))))))))))))))))))))))))))))))))))))))))))))))))))))))))))))))))))))))))))))))))))))))))))))))))))))
| Xe0 ->
  S (S (S (S (S (S (S (S (S (S (S (S (S (S (S (S (S (S (S (S (S (S (S (S (S
    (S (S (S (S (S (S (S (S (S (S (S (S (S (S (S (S (S (S (S (S (S (S (S (S
    (S (S (S (S (S (S (S (S (S (S (S (S (S (S (S (S (S (S (S (S (S (S (S (S
    (S (S (S (S (S (S (S (S (S (S (S (S (S (S (S (S (S (S (S (S (S (S (S (S
    (S (S (S (S (S (S (S (S (S (S (S (S (S (S (S (S (S (S (S (S (S (S (S (S
    (S (S (S (S (S (S (S (S (S (S (S (S (S (S (S (S (S (S (S (S (S (S (S (S
    (S (S (S (S (S (S (S (S (S (S (S (S (S (S (S (S (S (S (S (S (S (S (S (S
    (S (S (S (S (S (S (S (S (S (S (S (S (S (S (S (S (S (S (S (S (S (S (S (S
    (S (S (S (S (S (S (S (S (S (S (S (S (S (S (S (S (S (S (S (S (S (S (S (S
    (S (S (S (S (S (S (S
    O)))))))))))))))))))))))))))))))))))))))))))))))))))))))))))))))))))))))))))))))))))))))))))))))))))))))))))))))))))))))))))))))))))))))))))))))))))))))))))))))))))))))))))))))))))))))))))))))))))))))))))))))))))))))))))))))
| Xe1 ->
  S (S (S (S (S (S (S (S (S (S (S (S (S (S (S (S (S (S (S (S (S (S (S (S (S
    (S (S (S (S (S (S (S (S (S (S (S (S (S (S (S (S (S (S (S (S (S (S (S (S
    (S (S (S (S (S (S (S (S (S (S (S (S (S (S (S (S (S (S (S (S (S (S (S (S
    (S (S (S (S (S (S (S (S (S (S (S (S (S (S (S (S (S (S (S (S (S (S (S (S
    (S (S (S (S (S (S (S (S (S (S (S (S (S (S (S (S (S (S (S (S (S (S (S (S
    (S (S (S (S (S (S (S (S (S (S (S (S (S (S (S (S (S (S (S (S (S (S (S (S
    (S (S (S (S (S (S (S (S (S (S (S (S (S (S (S (S (S (S (S (S (S (S (S (S
    (S (S (S (S (S (S (S (S (S (S (S (S (S (S (S (S (S (S (S (S (S (S (S (S
    (S (S (S (S (S (S (S (S (S (S (S (S (S (S (S (S (S (S (S (S (S (S (S (S
    (S (S (S (S (S (S (S (S
    O))))))))))))))))))))))))))))))))))))))))))))))))))))))))))))))))))))))))))))))))))))))))))))))))))))))))))))))))))))))))))))))))))))))))))))))))))))))))))))))))))))))))))))))))))))))))))))))))))))))))))))))))))))))))))))))))
| Xe2 ->
  S (S (S (S (S (S (S (S (S (S (S (S (S (S (S (S (S (S (S (S (S (S (S (S (S
    (S (S (S (S (S (S (S (S (S (S (S (S (S (S (S (S (S (S (S (S (S (S (S (S
    (S (S (S (S (S (S (S (S (S (S (S (S (S (S (S (S (S (S (S (S (S (S (S (S
    (S (S (S (S (S (S (S (S (S (S (S (S (S (S (S (S (S (S (S (S (S (S (S (S
    (S (S (S (S (S (S (S (S (S (S (S (S (S (S (S (S (S (S (S (S (S (S (S (S
    (S (S (S (S (S (S (S (S (S (S (S (S (S (S (S (S (S (S (S (S (S (S (S (S
    (S (S (S (S (S (S (S (S (S (S (S (S (S (S (S (S (S (S (S (S (S (S (S (S
    (S (S (S (S (S (S (S (S (S (S (S (S (S (S (S (S (S (S (S (S (S (S (S (S
    (S (S (S (S (S (S (S (S (S (S (S (S (S (S (S (S (S (S (S (S (S (S (S (S
    (S (S (S (S (S (S (S (S (S
    O)))))))))))))))))))))))))))))))))))))))))))))))))))))))))))))))))))))))))))))))))))))))))))))))))))))))))))))))))))))))))))))))))))))))))))))))))))))))))))))))))))))))))))))))))))))))))))))))))))))))))))))))))))))))))))))))))
| Xe3 ->
  S (S (S (S (S (S (S (S (S (S (S (S (S (S (S (S (S (S (S (S (S (S (S (S (S
    (S (S (S (S (S (S (S (S (S (S (S (S (S (S (S (S (S (S (S (S (S (S (S (S
    (S (S (S (S (S (S (S (S (S (S (S (S (S (S (S (S (S (S (S (S (S (S (S (S
    (S (S (S (S (S (S (S (S (S (S (S (S (S (S (S (S (S (S (S (S (S (S (S (S
    (S (S (S (S (S (S (S (S (S (S (S (S (S (S (S (S (S (S (S (S (S (S (S (S
    (S (S (S (S (S (S (S (S (S (S (S (S (S (S (S (S (S (S (S (S (S (S (S (S
    (S (S (S (S (S (S (S (S (S (S (S (S (S (S (S (S (S (S (S (S (S (S (S (S
    (S (S (S (S (S (S (S (S (S (S (S (S (S (S (S (S (S (S (S (S (S (S (S (S
    (S (S (S (S (S (S (S (S (S (S (S (S (S (S (S (S (S (S (S (S (S (S (S (S
    (S (S (S (S (S (S (S (S (S (S
    O))))))))))))))))))))))))))))))))))))))))))))))))))))))))))))))))))))))))))))))))))))))))))))))))))))))))))))))))))))))))))))))))))))))))))))))))))))))))))))))))))))))))))))))))))))))))))))))))))))))))))))))))))))))))))))))))))
| Xe4 ->
  S (S (S (S (S (S (S (S (S (S (S (S (S (S (S (S (S (S (S (S (S (S (S (S (S
    (S (S (S (S (S (S (S (S (S (S (S (S (S (S (S (S (S (S (S (S (S (S (S (S
    (S (S (S (S (S (S (S (S (S (S (S (S (S (S (S (S (S (S (S (S (S (S (S (S
    (S (S (S (S (S (S (S (S (S (S (S (S (S (S (S (S (S (S (S (S (S (S (S (S
    (S (S (S (S (S (S (S (S (S (S (S (S (S (S (S (S (S (S (S (S (S (S (S (S
    (S (S (S (S (S (S (S (S (S (S (S (S (S (S (S (S (S (S (S (S (S (S (S (S
    (S (S (S (S (S (S (S (S (S (S (S (S (S (S (S (S (S (S (S (S (S (S (S (S
    (S (S (S (S (S (S (S (S (S (S (S (S (S (S (S (S (S (S (S (S (S (S (S (S
    (S (S (S (S (S (S (S (S (S (S (S (S (S (S (S (S (S (S (S (S (S (S (S (S
    (S (S (S (S (S (S (S (S (S (S (S
    O)))))))))))))))))))))))))))))))))))))))))))))))))))))))))))))))))))))))))))))))))))))))))))))))))))))))))))))))))))))))))))))))))))))))))))))))))))))))))))))))))))))))))))))))))))))))))))))))))))))))))))))))))))))))))))))))))))
| Xe5 ->
  S (S (S (S (S (S (S (S (S (S (S (S (S (S (S (S (S (S (S (S (S (S (S (S (S
    (S (S (S (S (S (S (S (S (S (S (S (S (S (S (S (S (S (S (S (S (S (S (S (S
    (S (S (S (S (S (S (S (S (S (S (S (S (S (S (S (S (S (S (S (S (S (S (S (S
    (S (S (S (S (S (S (S (S (S (S (S (S (S (S (S (S (S (S (S (S (S (S (S (S
    (S (S (S (S (S (S (S (S (S (S (S (S (S (S (S (S (S (S (S (S (S (S (S (S
    (S (S (S (S (S (S (S (S (S (S (S (S (S (S (S (S (S (S (S (S (S (S (S (S
    (S (S (S (S (S (S (S (S (S (S (S (S (S (S (S (S (S (S (S (S (S (S (S (S
    (S (S (S (S (S (S (S (S (S (S (S (S (S (S (S (S (S (S (S (S (S (S (S (S
    (S (S (S (S (S (S (S (S (S (S (S (S (S (S (S (S (S (S (S (S (S (S (S (S
    (S (S (S (S (S (S (S (S (S (S (S (S
    O))))))))))))))))))))))))))))))))))))))))))))))))))))))))))))))))))))))))))))))))))))))))))))))))))))))))))))))))))))))))))))))))))))))))))))))))))))))))))))))))))))))))))))))))))))))))))))))))))))))))))))))))))))))))))))))))))))
| Xe6 ->
  S (S (S (S (S (S (S (S (S (S (S (S (S (S (S (S (S (S (S (S (S (S (S (S (S
    (S (S (S (S (S (S (S (S (S (S (S (S (S (S (S (S (S (S (S (S (S (S (S (S
    (S (S (S (S (S (S (S (S (S (S (S (S (S (S (S (S (S (S (S (S (S (S (S (S
    (S (S (S (S (S (S (S (S (S (S (S (S (S (S (S (S (S (S (S (S (S (S (S (S
    (S (S (S (S (S (S (S (S (S (S (S (S (S (S (S (S (S (S (S (S (S (S (S (S
    (S (S (S (S (S (S (S (S (S (S (S (S (S (S (S (S (S (S (S (S (S (S (S (S
    (S (S (S (S (S (S (S (S (S (S (S (S (S (S (S (S (S (S (S (S (S (S (S (S
    (S (S (S (S (S (S (S (S (S (S (S (S (S (S (S (S (S (S (S (S (S (S (S (S
    (S (S (S (S (S (S (S (S (S (S (S (S (S (S (S (S (S (S (S (S (S (S (S (S
    (S (S (S (S (S (S (S (S (S (S (S (S (S
    O)))))))))))))))))))))))))))))))))))))))))))))))))))))))))))))))))))))))))))))))))))))))))))))))))))))))))))))))))))))))))))))))))))))))))))))))))))))))))))))))))))))))))))))))))))))))))))))))))))))))))))))))))))))))))))))))))))))
| Xe7 ->
  S (S (S (S (S (S (S (S (S (S (S (S (S (S (S (S (S (S (S (S (S (S (S (S (S
    (S (S (S (S (S (S (S (S (S (S (S (S (S (S (S (S (S (S (S (S (S (S (S (S
    (S (S (S (S (S (S (S (S (S (S (S (S (S (S (S (S (S (S (S (S (S (S (S (S
    (S (S (S (S (S (S (S (S (S (S (S (S (S (S (S (S (S (S (S (S (S (S (S (S
    (S (S (S (S (S (S (S (S (S (S (S (S (S (S (S (S (S (S (S (S (S (S (S (S
    (S (S (S (S (S (S (S (S (S (S (S (S (S (S (S (S (S (S (S (S (S (S (S (S
    (S (S (S (S (S (S (S (S (S (S (S (S (S (S (S (S (S (S (S (S (S (S (S (S
    (S (S (S (S (S (S (S (S (S (S (S (S (S (S (S (S (S (S (S (S (S (S (S (S
    (S (S (S (S (S (S (S (S (S (S (S (S (S (S (S (S (S (S (S (S (S (S (S (S
    (S (S (S (S (S (S (S (S (S (S (S (S (S (S
    O))))))))))))))))))))))))))))))))))))))))))))))))))))))))))))))))))))))))))))))))))))))))))))))))))))))))))))))))))))))))))))))))))))))))))))))))))))))))))))))))))))))))))))))))))))))))))))))))))))))))))))))))))))))))))))))))))))))
| Xe8 ->
  S (S (S (S (S (S (S (S (S (S (S (S (S (S (S (S (S (S (S (S (S (S (S (S (S
    (S (S (S (S (S (S (S (S (S (S (S (S (S (S (S (S (S (S (S (S (S (S (S (S
    (S (S (S (S (S (S (S (S (S (S (S (S (S (S (S (S (S (S (S (S (S (S (S (S
    (S (S (S (S (S (S (S (S (S (S (S (S (S (S (S (S (S (S (S (S (S (S (S (S
    (S (S (S (S (S (S (S (S (S (S (S (S (S (S (S (S (S (S (S (S (S (S (S (S
    (S (S (S (S (S (S (S (S (S (S (S (S (S (S (S (S (S (S (S (S (S (S (S (S
    (S (S (S (S (S (S (S (S (S (S (S (S (S (S (S (S (S (S (S (S (S (S (S (S
    (S (S (S (S (S (S (S (S (S (S (S (S (S (S (S (S (S (S (S (S (S (S (S (S
    (S (S (S (S (S (S (S (S (S (S (S (S (S (S (S (S (S (S (S (S (S (S (S (S
    (S (S (S (S (S (S (S (S (S (S (S (S (S (S (S
    O)))))))))))))))))))))))))))))))))))))))))))))))))))))))))))))))))))))))))))))))))))))))))))))))))))))))))))))))))))))))))))))))))))))))))))))))))))))))))))))))))))))))))))))))))))))))))))))))))))))))))))))))))))))))))))))))))))))))
| Xe9 ->
  S (S (S (S (S (S (S (S (S (S (S (S (S (S (S (S (S (S (S (S (S (S (S (S (S
    (S (S (S (S (S (S (S (S (S (S (S (S (S (S (S (S (S (S (S (S (S (S (S (S
    (S (S (S (S (S (S (S (S (S (S (S (S (S (S (S (S (S (S (S (S (S (S (S (S
    (S (S (S (S (S (S (S (S (S (S (S (S (S (S (S (S (S (S (S (S (S (S (S (S
    (S (S (S (S (S (S (S (S (S (S (S (S (S (S (S (S (S (S (S (S (S (S (S (S
    (S (S (S (S (S (S (S (S (S (S (S (S (S (S (S (S (S (S (S (S (S (S (S (S
    (S (S (S (S (S (S (S (S (S (S (S (S (S (S (S (S (S (S (S (S (S (S (S (S
    (S (S (S (S (S (S (S (S (S (S (S (S (S (S (S (S (S (S (S (S (S (S (S (S
    (S (S (S (S (S (S (S (S (S (S (S (S (S (S (S (S (S (S (S (S (S (S (S (S
    (S (S (S (S (S (S (S (S (S (S (S (S (S (S (S (S
    O))))))))))))))))))))))))))))))))))))))))))))))))))))))))))))))))))))))))))))))))))))))))))))))))))))))))))))))))))))))))))))))))))))))))))))))))))))))))))))))))))))))))))))))))))))))))))))))))))))))))))))))))))))))))))))))))))))))))
| Xea ->
  S (S (S (S (S (S (S (S (S (S (S (S (S (S (S (S (S (S (S (S (S (S (S (S (S
    (S (S (S (S (S (S (S (S (S (S (S (S (S (S (S (S (S (S (S (S (S (S (S (S
    (S (S (S (S (S (S (S (S (S (S (S (S (S (S (S (S (S (S (S (S (S (S (S (S
    (S (S (S (S (S (S (S (S (S (S (S (S (S (S (S (S (S (S (S (S (S (S (S (S
    (S (S (S (S (S (S (S (S (S (S (S (S (S (S (S (S (S (S (S (S (S (S (S (S
    (S (S (S (S (S (S (S (S (S (S (S (S (S (S (S (S (S (S (S (S (S (S (S (S
    (S (S (S (S (S (S (S (S (S (S (S (S (S (S (S (S (S (S (S (S (S (S (S (S
    (S (S (S (S (S (S (S (S (S (S (S (S (S (S (S (S (S (S (S (S (S (S (S (S
    (S (S (S (S (S (S (S (S (S (S (S (S (S (S (S (S (S (S (S (S (S (S (S (S
    (S (S (S (S (S (S (S (S (S (S (S (S (S (S (S (S (S
    O)))))))))))))))))))))))))))))))))))))))))))))))))))))))))))))))))))))))))))))))))))))))))))))))))))))))))))))))))))))))))))))))))))))))))))))))))))))))))))))))))))))))))))))))))))))))))))))))))))))))))))))))))))))))))))))))))))))))))
| Xeb ->
  S (S (S (S (S (S (S (S (S (S (S (S (S (S (S (S (S (S (S (S (S (S (S (S (S
    (S (S (S (S (S (S (S (S (S (S (S (S (S (S (S (S (S (S (S (S (S (S (S (S
    (S (S (S (S (S (S (S (S (S (S (S (S (S (S (S (S (S (S (S (S (S (S (S (S
    (S (S (S (S (S (S (S (S (S (S (S (S (S (S (S (S (S (S (S (S (S (S (S (S
    (S (S (S (S (S (S (S (S (S (S (S (S (S (S (S (S (S (S (S (S (S (S (S (S
    (S (S (S (S (S (S (S (S (S (S (S (S (S (S (S (S (S (S (S (S (S (S (S (S
    (S (S (S (S (S (S (S (S (S (S (S (S (S (S (S (S (S (S (S (S (S (S (S (S
    (S (S (S (S (S (S (S (S (S (S (S (S (S (S (S (S (S (S (S (S (S (S (S (S
    (S (S (S (S (S (S (S (S (S (S (S (S (S (S (S (S (S (S (S (S (S (S (S (S
    (S (S (S (S (S (S (S (S (S (S (S (S (S (S (S (S (S (S
    O))))))))))))))))))))))))))))))))))))))))))))))))))))))))))))))))))))))))))))))))))))))))))))))))))))))))))))))))))))))))))))))))))))))))))))))))))))))))))))))))))))))))))))))))))))))))))))))))))))))))))))))))))))))))))))))))))))))))))
| Xec ->
  S (S (S (S (S (S (S (S (S (S (S (S (S (S (S (S (S (S (S (S (S (S (S (S (S
    (S (S (S (S (S (S (S (S (S (S (S (S (S (S (S (S (S (S (S (S (S (S (S (S
    (S (S (S (S (S (S (S (S (S (S (S (S (S (S (S (S (S (S (S (S (S (S (S (S
    (S (S (S (S (S (S (S (S (S (S (S (S (S (S (S (S (S (S (S (S (S (S (S (S
    (S (S (S (S (S (S (S (S (S (S (S (S (S (S (S (S (S (S (S (S (S (S (S (S
    (S (S (S (S (S (S (S (S (S (S (S (S (S (S (S (S (S (S (S (S (S (S (S (S
    (S (S (S (S (S (S (S (S (S (S (S (S (S (S (S (S (S (S (S (S (S (S (S (S
    (S (S (S (S (S (S (S (S (S (S (S (S (S (S (S (S (S (S (S (S (S (S (S (S
    (S (S (S (S (S (S (S (S (S (S (S (S (S (S (S (S (S (S (S (S (S (S (S (S
    (S (S (S (S (S (S (S (S (S (S (S (S (S (S (S (S (S (S (S
    O)))))))))))))))))))))))))))))))))))))))))))))))))))))))))))))))))))))))))))))))))))))))))))))))))))))))))))))))))))))))))))))))))))))))))))))))))))))))))))))))))))))))))))))))))))))))))))))))))))))))))))))))))))))))))))))))))))))))))))
| Xed ->
  S (S (S (S (S (S (S (S (S (S (S (S (S (S (S (S (S (S (S (S (S (S (S (S (S
    (S (S (S (S (S (S (S (S (S (S (S (S (S (S (S (S (S (S (S (S (S (S (S (S
    (S (S (S (S (S (S (S (S (S (S (S (S (S (S (S (S (S (S (S (S (S (S (S (S
    (S (S (S (S (S (S (S (S (S (S (S (S (S (S (S (S (S (S (S (S (S (S (S (S
    (S (S (S (S (S (S (S (S (S (S (S (S (S (S (S (S (S (S (S (S (S (S (S (S
    (S (S (S (S (S (S (S (S (S (S (S (S (S (S (S (S (S (S (S (S (S (S (S (S
    (S (S (S (S (S (S (S (S (S (S (S (S (S (S (S (S (S (S (S (S (S (S (S (S
    (S (S (S (S (S (S (S (S (S (S (S (S (S (S (S (S (S (S (S (S (S (S (S (S
    (S (S (S (S (S (S (S (S (S (S (S (S (S (S (S (S (S (S (S (S (S (S (S (S
    (S (S (S (S (S (S (S (S (S (S (S (S (S (S (S (S (S (S (S (S
    O))))))))))))))))))))))))))))))))))))))))))))))))))))))))))))))))))))))))))))))))))))))))))))))))))))))))))))))))))))))))))))))))))))))))))))))))))))))))))))))))))))))))))))))))))))))))))))))))))))))))))))))))))))))))))))))))))))))))))))
| Xee ->
  S (S (S (S (S (S (S (S (S (S (S (S (S (S (S (S (S (S (S (S (S (S (S (S (S
    (S (S (S (S (S (S (S (S (S (S (S (S (S (S (S (S (S (S (S (S (S (S (S (S
    (S (S (S (S (S (S (S (S (S (S (S (S (S (S (S (S (S (S (S (S (S (S (S (S
    (S (S (S (S (S (S (S (S (S (S (S (S (S (S (S (S (S (S (S (S (S (S (S (S
    (S (S (S (S (S (S (S (S (S (S (S (S (S (S (S (S (S (S (S (S (S (S (S (S
    (S (S (S (S (S (S (S (S (S (S (S (S (S (S (S (S (S (S (S (S (S (S (S (S
    (S (S (S (S (S (S (S (S (S (S (S (S (S (S (S (S (S (S (S (S (S (S (S (S
    (S (S (S (S (S (S (S (S (S (S (S (S (S (S (S (S (S (S (S (S (S (S (S (S
    (S (S (S (S (S (S (S (S (S (S (S (S (S (S (S (S (S (S (S (S (S (S (S (S
    (S (S (S (S (S (S (S (S (S (S (S (S (S (S (S (S (S (S (S (S (S
    O)))))))))))))))))))))))))))))))))))))))))))))))))))))))))))))))))))))))))))))))))))))))))))))))))))))))))))))))))))))))))))))))))))))))))))))))))))))))))))))))))))))))))))))))))))))))))))))))))))))))))))))))))))))))))))))))))))))))))))))
| Xef ->
  S (S (S (S (S (S (S (S (S (S (S (S (S (S (S (S (S (S (S (S (S (S (S (S (S
    (S (S (S (S (S (S (S (S (S (S (S (S (S (S (S (S (S (S (S (S (S (S (S (S
    (S (S (S (S (S (S (S (S (S (S (S (S (S (S (S (S (S (S (S (S (S (S (S (S
    (S (S (S (S (S (S (S (S (S (S (S (S (S (S (S (S (S (S (S (S (S (S (S (S
    (S (S (S (S (S (S (S (S (S (S (S (S (S (S (S (S (S (S (S (S (S (S (S (S
    (S (S (S (S (S (S (S (S (S (S (S (S (S (S (S (S (S (S (S (S (S (S (S (S
    (S (S (S (S (S (S (S (S (S (S (S (S (S (S (S (S (S (S (S (S (S (S (S (S
    (S (S (S (S (S (S (S (S (S (S (S (S (S (S (S (S (S (S (S (S (S (S (S (S
    (S (S (S (S (S (S (S (S (S (S (S (S (S (S (S (S (S (S (S (S (S (S (S (S
    (S (S (S (S (S (S (S (S (S (S (S (S (S (S (S (S (S (S (S (S (S (S
    O))))))))))))))))))))))))))))))))))))))))))))))))))))))))))))))))))))))))))))))))))))))))))))))))))))))))))))))))))))))))))))))))))))))))))))))))))))))))))))))))))))))))))))))))))))))))))))))))))))))))))))))))))))))))))))))))))))))))))))))
| Xf0 ->
  S (S (S (S (S (S (S (S (S (S (S (S (S (S (S (S (S (S (S (S (S (S (S (S (S
    (S (S (S (S (S (S (S (S (S (S (S (S (S (S (S (S (S (S (S (S (S (S (S (S
    (S (S (S (S (S (S (S (S (S (S (S (S (S (S (S (S (S (S (S (S (S (S (S (S
    (S (S (S (S (S (S (S (S (S (S (S (S (S (S (S (S (S (S (S (S (S (S (S (S
    (S (S (S (S (S (S (S (S (S (S (S (S (S (S (S (S (S (S (S (S (S (S (S (S
    (S (S (S (S (S (S (S (S (S (S (S (S (S (S (S (S (S (S (S (S (S (S (S (S
    (S (S (S (S (S (S (S (S (S (S (S (S (S (S (S (S (S (S (S (S (S (S (S (S
    (S (S (S (S (S (S (S (S (S (S (S (S (S (S (S (S (S (S (S (S (S (S (S (S
    (S (S (S (S (S (S (S (S (S (S (S (S (S (S (S (S (S (S (S (S (S (S (S (S
    (S (S (S (S (S (S (S (S (S (S (S (S (S (S (S (S (S (S (S (S (S (S (S
    O)))))))))))))))))))))))))))))))))))))))))))))))))))))))))))))))))))))))))))))))))))))))))))))))))))))))))))))))))))))))))))))))))))))))))))))))))))))))))))))))))))))))))))))))))))))))))))))))))))))))))))))))))))))))))))))))))))))))))))))))
| Xf1 ->
  S (S (S (S (S (S (S (S (S (S (S (S (S (S (S (S (S (S (S (S (S (S (S (S (S
    (S (S (S (S (S (S (S (S (S (S (S (S (S (S (S (S (S (S (S (S (S (S (S (S
    (S (S (S (S (S (S (S (S (S (S (S (S (S (S (S (S (S (S (S (S (S (S (S (S
    (S (S (S (S (S (S (S (S (S (S (S (S (S (S (S (S (S (S (S (S (S (S (S (S
    (S (S (S (S (S (S (S (S (S (S (S (S (S (S (S (S (S (S (S (S (S (S (S (S
    (S (S (S (S (S (S (S (S (S (S (S (S (S (S (S (S (S (S (S (S (S (S (S (S
    (S (S (S (S (S (S (S (S (S (S (S (S (S (S (S (S (S (S (S (S (S (S (S (S
    (S (S (S (S (S (S (S (S (S (S (S (S (S (S (S (S (S (S (S (S (S (S (S (S
    (S (S (S (S (S (S (S (S (S (S (S (S (S (S (S (S (S (S (S (S (S (S (S (S
    (S (S (S (S (S (S (S (S (S (S (S (S (S (S (S (S (S (S (S (S (S (S (S (S
    O))))))))))))))))))))))))))))))))))))))))))))))))))))))))))))))))))))))))))))))))))))))))))))))))))))))))))))))))))))))))))))))))))))))))))))))))))))))))))))))))))))))))))))))))))))))))))))))))))))))))))))))))))))))))))))))))))))))))))))))))
| Xf2 ->
  S (S (S (S (S (S (S (S (S (S (S (S (S (S (S (S (S (S (S (S (S (S (S (S (S
    (S (S (S (S (S (S (S (S (S (S (S (S (S (S (S (S (S (S (S (S (S (S (S (S
    (S (S (S (S (S (S (S (S (S (S (S (S (S (S (S (S (S (S (S (S (S (S (S (S
    (S (S (S (S (S (S (S (S (S (S (S (S (S (S (S (S (S (S (S (S (S (S (S (S
    (S (S (S (S (S (S (S (S (S (S (S (S (S (S (S (S (S (S (S (S (S (S (S (S
    (S (S (S (S (S (S (S (S (S (S (S (S (S (S (S (S (S (S (S (S (S (S (S (S
    (S (S (S (S (S (S (S (S (S (S (S (S (S (S (S (S (S (S (S (S (S (S (S (S
    (S (S (S (S (S (S (S (S (S (S (S (S (S (S (S (S (S (S (S (S (S (S (S (S
    (S (S (S (S (S (S (S (S (S (S (S (S (S (S (S (S (S (S (S (S (S (S (S (S
    (S (S (S (S (S (S (S (S (S (S (S (S (S (S (S (S (S (S (S (S (S (S (S (S
    (S
    O)))))))))))))))))))))))))))))))))))))))))))))))))))))))))))))))))))))))))))))))))))))))))))))))))))))))))))))))))))))))))))))))))))))))))))))))))))))))))))))))))))))))))))))))))))))))))))))))))))))))))))))))))))))))))))))))))))))))))))))))))
| Xf3 ->
  S (S (S (S (S (S (S (S (S (S (S (S (S (S (S (S (S (S (S (S (S (S (S (S (S
    (S (S (S (S (S (S (S (S (S (S (S (S (S (S (S (S (S (S (S (S (S (S (S (S
    (S (S (S (S (S (S (S (S (S (S (S (S (S (S (S (S (S (S (S (S (S (S (S (S
    (S (S (S (S (S (S (S (S (S (S (S (S (S (S (S (S (S (S (S (S (S (S (S (S
    (S (S (S (S (S (S (S (S (S (S (S (S (S (S (S (S (S (S (S (S (S (S (S (S
    (S (S (S (S (S (S (S (S (S (S (S (S (S (S (S (S (S (S (S (S (S (S (S (S
    (S (S (S (S (S (S (S (S (S (S (S (S (S (S (S (S (S (S (S (S (S (S (S (S
    (S (S (S (S (S (S (S (S (S (S (S (S (S (S (S (S (S (S (S (S (S (S (S (S
    (S (S (S (S (S (S (S (S (S (S (S (S (S (S (S (S (S (S (S (S (S (S (S (S
    (S (S (S (S (S (S (S (S (S (S (S (S (S (S (S (S (S (S (S (S (S (S (S (S
    (S (S
    O))))))))))))))))))))))))))))))))))))))))))))))))))))))))))))))))))))))))))))))))))))))))))))))))))))))))))))))))))))))))))))))))))))))))))))))))))))))))))))))))))))))))))))))))))))))))))))))))))))))))))))))))))))))))))))))))))))))))))))))))))
| Xf4 ->
  S (S (S (S (S (S (S (S (S (S (S (S (S (S (S (S (S (S (S (S (S (S (S (S (S
    (S (S (S (S (S (S (S (S (S (S (S (S (S (S (S (S (S (S (S (S (S (S (S (S
    (S (S (S (S (S (S (S (S (S (S (S (S (S (S (S (S (S (S (S (S (S (S (S (S
    (S (S (S (S (S (S (S (S (S (S (S (S (S (S (S (S (S (S (S (S (S (S (S (S
    (S (S (S (S (S (S (S (S (S (S (S (S (S (S (S (S (S (S (S (S (S (S (S (S
    (S (S (S (S (S (S (S (S (S (S (S (S (S (S (S (S (S (S (S (S (S (S (S (S
    (S (S (S (S (S (S (S (S (S (S (S (S (S (S (S (S (S (S (S (S (S (S (S (S
    (S (S (S (S (S (S (S (S (S (S (S (S (S (S (S (S (S (S (S (S (S (S (S (S
    (S (S (S (S (S (S (S (S (S (S (S (S (S (S (S (S (S (S (S (S (S (S (S (S
    (S (S (S (S (S (S (S (S (S (S (S (S (S (S (S (S (S (S (S (S (S (S (S (S
    (S (S (S
    O)))))))))))))))))))))))))))))))))))))))))))))))))))))))))))))))))))))))))))))))))))))))))))))))))))))))))))))))))))))))))))))))))))))))))))))))))))))))))))))))))))))))))))))))))))))))))))))))))))))))))))))))))))))))))))))))))))))))))))))))))))
| Xf5 ->
  S (S (S (S (S (S (S (S (S (S (S (S (S (S (S (S (S (S (S (S (S (S (S (S (S
    (S (S (S (S (S (S (S (S (S (S (S (S (S (S (S (S (S (S (S (S (S (S (S (S
    (S (S (S (S (S (S (S (S (S (S (S (S (S (S (S (S (S (S (S (S (S (S (S (S
    (S (S (S (S (S (S (S (S (S (S (S (S (S (S (S (S (S (S (S (S (S (S (S (S
    (S (S (S (S (S (S (S (S (S (S (S (S (S (S (S (S (S (S (S (S (S (S (S (S
    (S (S (S (S (S (S (S (S (S (S (S (S (S (S (S (S (S (S (S (S (S (S (S (S
    (S (S (S (S (S (S (S (S (S (S (S (S (S (S (S (S (S (S (S (S (S (S (S (S
    (S (S (S (S (S (S (S (S (S (S (S (S (S (S (S (S (S (S (S (S (S (S (S (S
    (S (S (S (S (S (S (S (S (S (S (S (S (S (S (S (S (S (S (S (S (S (S (S (S
    (S (S (S (S (S (S (S (S (S (S (S (S (S (S (S (S (S (S (S (S (S (S (S (S
    (S (S (S (S
    O))))))))))))))))))))))))))))))))))))))))))))))))))))))))))))))))))))))))))))))))))))))))))))))))))))))))))))))))))))))))))))))))))))))))))))))))))))))))))))))))))))))))))))))))))))))))))))))))))))))))))))))))))))))))))))))))))))))))))))))))))))
| Xf6 ->
  S (S (S (S (S (S (S (S (S (S (S (S (S (S (S (S (S (S (S (S (S (S (S (S (S
    (S (S (S (S (S (S (S (S (S (S (S (S (S (S (S (S (S (S (S (S (S (S (S (S
    (S (S (S (S (S (S (S (S (S (S (S (S (S (S (S (S (S (S (S (S (S (S (S (S
    (S (S (S (S (S (S (S (S (S (S (S (S (S (S (S (S (S (S (S (S (S (S (S (S
    (S (S (S (S (S (S (S (S (S (S (S (S (S (S (S (S (S (S (S (S (S (S (S (S
    (S (S (S (S (S (S (S (S (S (S (S (S (S (S (S (S (S (S (S (S (S (S (S (S
    (S (S (S (S (S (S (S (S (S (S (S (S (S (S (S (S (S (S (S (S (S (S (S (S
    (S (S (S (S (S (S (S (S (S (S (S (S (S (S (S (S (S (S (S (S (S (S (S (S
    (S (S (S (S (S (S (S (S (S (S (S (S (S (S (S (S (S (S (S (S (S (S (S (S
    (S (S (S (S (S (S (S (S (S (S (S (S (S (S (S (S (S (S (S (S (S (S (S (S
    (S (S (S (S (S
    O)))))))))))))))))))))))))))))))))))))))))))))))))))))))))))))))))))))))))))))))))))))))))))))))))))))))))))))))))))))))))))))))))))))))))))))))))))))))))))))))))))))))))))))))))))))))))))))))))))))))))))))))))))))))))))))))))))))))))))))))))))))
| Xf7 ->
  S (S (S (S (S (S (S (S (S (S (S (S (S (S (S (S (S (S (S (S (S (S (S (S (S
    (S (S (S (S (S (S (S (S (S (S (S (S (S (S (S (S (S (S (S (S (S (S (S (S
    (S (S (S (S (S (S (S (S (S (S (S (S (S (S (S (S (S (S (S (S (S (S (S (S
    (S (S (S (S (S (S (S (S (S (S (S (S (S (S (S (S (S (S (S (S (S (S (S (S
    (S (S (S (S (S (S (S (S (S (S (S (S (S (S (S (S (S (S (S (S (S (S (S (S
    (S (S (S (S (S (S (S (S (S (S (S (S (S (S (S (S (S (S (S (S (S (S (S (S
    (S (S (S (S (S (S (S (S (S (S (S (S (S (S (S (S (S (S (S (S (S (S (S (S
    (S (S (S (S (S (S (S (S (S (S (S (S (S (S (S (S (S (S (S (S (S (S (S (S
    (S (S (S (S (S (S (S (S (S (S (S (S (S (S (S (S (S (S (S (S (S (S (S (S
    (S (S (S (S (S (S (S (S (S (S (S (S (S (S (S (S (S (S (S (S (S (S (S (S
    (S (S (S (S (S (S
    O))))))))))))))))))))))))))))))))))))))))))))))))))))))))))))))))))))))))))))))))))))))))))))))))))))))))))))))))))))))))))))))))))))))))))))))))))))))))))))))))))))))))))))))))))))))))))))))))))))))))))))))))))))))))))))))))))))))))))))))))))))))
| Xf8 ->
  S (S (S (S (S (S (S (S (S (S (S (S (S (S (S (S (S (S (S (S (S (S (S (S (S
    (S (S (S (S (S (S (S (S (S (S (S (S (S (S (S (S (S (S (S (S (S (S (S (S
    (S (S (S (S (S (S (S (S (S (S (S (S (S (S (S (S (S (S (S (S (S (S (S (S
    (S (S (S (S (S (S (S (S (S (S (S (S (S (S (S (S (S (S (S (S (S (S (S (S
    (S (S (S (S (S (S (S (S (S (S (S (S (S (S (S (S (S (S (S (S (S (S (S (S
    (S (S (S (S (S (S (S (S (S (S (S (S (S (S (S (S (S (S (S (S (S (S (S (S
    (S (S (S (S (S (S (S (S (S (S (S (S (S (S (S (S (S (S (S (S (S (S (S (S
    (S (S (S (S (S (S (S (S (S (S (S (S (S (S (S (S (S (S (S (S (S (S (S (S
    (S (S (S (S (S (S (S (S (S (S (S (S (S (S (S (S (S (S (S (S (S (S (S (S
    (S (S (S (S (S (S (S (S (S (S (S (S (S (S (S (S (S (S (S (S (S (S (S (S
    (S (S (S (S (S (S (S
    O)))))))))))))))))))))))))))))))))))))))))))))))))))))))))))))))))))))))))))))))))))))))))))))))))))))))))))))))))))))))))))))))))))))))))))))))))))))))))))))))))))))))))))))))))))))))))))))))))))))))))))))))))))))))))))))))))))))))))))))))))))))))
| Xf9 ->
  S (S (S (S (S (S (S (S (S (S (S (S (S (S (S (S (S (S (S (S (S (S (S (S (S
    (S (S (S (S (S (S (S (S (S (S (S (S (S (S (S (S (S (S (S (S (S (S (S (S
    (S (S (S (S (S (S (S (S (S (S (S (S (S (S (S (S (S (S (S (S (S (S (S (S
    (S (S (S (S (S (S (S (S (S (S (S (S (S (S (S (S (S (S (S (S (S (S (S (S
    (S (S (S (S (S (S (S (S (S (S (S (S (S (S (S (S (S (S (S (S (S (S (S (S
    (S (S (S (S (S (S (S (S (S (S (S (S (S (S (S (S (S (S (S (S (S (S (S (S
    (S (S (S (S (S (S (S (S (S (S (S (S (S (S (S (S (S (S (S (S (S (S (S (S
    (S (S (S (S (S (S (S (S (S (S (S (S (S (S (S (S (S (S (S (S (S (S (S (S
    (S (S (S (S (S (S (S (S (S (S (S (S (S (S (S (S (S (S (S (S (S (S (S (S
    (S (S (S (S (S (S (S (S (S (S (S (S (S (S (S (S (S (S (S (S (S (S (S (S
    (S (S (S (S (S (S (S (S
    O))))))))))))))))))))))))))))))))))))))))))))))))))))))))))))))))))))))))))))))))))))))))))))))))))))))))))))))))))))))))))))))))))))))))))))))))))))))))))))))))))))))))))))))))))))))))))))))))))))))))))))))))))))))))))))))))))))))))))))))))))))))))
| Xfa ->
  S (S (S (S (S (S (S (S (S (S (S (S (S (S (S (S (S (S (S (S (S (S (S (S (S
    (S (S (S (S (S (S (S (S (S (S (S (S (S (S (S (S (S (S (S (S (S (S (S (S
    (S (S (S (S (S (S (S (S (S (S (S (S (S (S (S (S (S (S (S (S (S (S (S (S
    (S (S (S (S (S (S (S (S (S (S (S (S (S (S (S (S (S (S (S (S (S (S (S (S
    (S (S (S (S (S (S (S (S (S (S (S (S (S (S (S (S (S (S (S (S (S (S (S (S
    (S (S (S (S (S (S (S (S (S (S (S (S (S (S (S (S (S (S (S (S (S (S (S (S
    (S (S (S (S (S (S (S (S (S (S (S (S (S (S (S (S (S (S (S (S (S (S (S (S
    (S (S (S (S (S (S (S (S (S (S (S (S (S (S (S (S (S (S (S (S (S (S (S (S
    (S (S (S (S (S (S (S (S (S (S (S (S (S (S (S (S (S (S (S (S (S (S (S (S
    (S (S (S (S (S (S (S (S (S (S (S (S (S (S (S (S (S (S (S (S (S (S (S (S
    (S (S (S (S (S (S (S (S (S
    O)))))))))))))))))))))))))))))))))))))))))))))))))))))))))))))))))))))))))))))))))))))))))))))))))))))))))))))))))))))))))))))))))))))))))))))))))))))))))))))))))))))))))))))))))))))))))))))))))))))))))))))))))))))))))))))))))))))))))))))))))))))))))
| Xfb ->
  S (S (S (S (S (S (S (S (S (S (S (S (S (S (S (S (S (S (S (S (S (S (S (S (S
    (S (S (S (S (S (S (S (S (S (S (S (S (S (S (S (S (S (S (S (S (S (S (S (S
    (S (S (S (S (S (S (S (S (S (S (S (S (S (S (S (S (S (S (S (S (S (S (S (S
    (S (S (S (S (S (S (S (S (S (S (S (S (S (S (S (S (S (S (S (S (S (S (S (S
    (S (S (S (S (S (S (S (S (S (S (S (S (S (S (S (S (S (S (S (S (S (S (S (S
    (S (S (S (S (S (S (S (S (S (S (S (S (S (S (S (S (S (S (S (S (S (S (S (S
    (S (S (S (S (S (S (S (S (S (S (S (S (S (S (S (S (S (S (S (S (S (S (S (S
    (S (S (S (S (S (S (S (S (S (S (S (S (S (S (S (S (S (S (S (S (S (S (S (S
    (S (S (S (S (S (S (S (S (S (S (S (S (S (S (S (S (S (S (S (S (S (S (S (S
    (S (S (S (S (S (S (S (S (S (S (S (S (S (S (S (S (S (S (S (S (S (S (S (S
    (S (S (S (S (S (S (S (S (S (S
    O))))))))))))))))))))))))))))))))))))))))))))))))))))))))))))))))))))))))))))))))))))))))))))))))))))))))))))))))))))))))))))))))))))))))))))))))))))))))))))))))))))))))))))))))))))))))))))))))))))))))))))))))))))))))))))))))))))))))))))))))))))))))))
| Xfc ->
  S (S (S (S (S (S (S (S (S (S (S (S (S (S (S (S (S (S (S (S (S (S (S (S (S
    (S (S (S (S (S (S (S (S (S (S (S (S (S (S (S (S (S (S (S (S (S (S (S (S
    (S (S (S (S (S (S (S (S (S (S (S (S (S (S (S (S (S (S (S (S (S (S (S (S
    (S (S (S (S (S (S (S (S (S (S (S (S (S (S (S (S (S (S (S (S (S (S (S (S
    (S (S (S (S (S (S (S (S (S (S (S (S (S (S (S (S (S (S (S (S (S (S (S (S
    (S (S (S (S (S (S (S (S (S (S (S (S (S (S (S (S (S (S (S (S (S (S (S (S
    (S (S (S (S (S (S (S (S (S (S (S (S (S (S (S (S (S (S (S (S (S (S (S (S
    (S (S (S (S (S (S (S (S (S (S (S (S (S (S (S (S (S (S (S (S (S (S (S (S
    (S (S (S (S (S (S (S (S (S (S (S (S (S (S (S (S (S (S (S (S (S (S (S (S
    (S (S (S (S (S (S (S (S (S (S (S (S (S (S (S (S (S (S (S (S (S (S (S (S
    (S (S (S (S (S (S (S (S (S (S (S
    O)))))))))))))))))))))))))))))))))))))))))))))))))))))))))))))))))))))))))))))))))))))))))))))))))))))))))))))))))))))))))))))))))))))))))))))))))))))))))))))))))))))))))))))))))))))))))))))))))))))))))))))))))))))))))))))))))))))))))))))))))))))))))))
| Xfd ->
  S (S (S (S (S (S (S (S (S (S (S (S (S (S (S (S (S (S (S (S (S (S (S (S (S
    (S (S (S (S (S (S (S (S (S (S (S (S (S (S (S (S (S (S (S (S (S (S (S (S
    (S (S (S (S (S (S (S (S (S (S (S (S (S (S (S (S (S (S (S (S (S (S (S (S
    (S (S (S (S (S (S (S (S (S (S (S (S (S (S (S (S (S (S (S (S (S (S (S (S
    (S (S (S (S (S (S (S (S (S (S (S (S (S (S (S (S (S (S (S (S (S (S (S (S
    (S (S (S (S (S (S (S (S (S (S (S (S (S (S (S (S (S (S (S (S (S (S (S (S
    (S (S (S (S (S (S (S (S (S (S (S (S (S (S (S (S (S (S (S (S (S (S (S (S
    (S (S (S (S (S (S (S (S (S (S (S (S (S (S (S (S (S (S (S (S (S (S (S (S
    (S (S (S (S (S (S (S (S (S (S (S (S (S (S (S (S (S (S (S (S (S (S (S (S
    (S (S (S (S (S (S (S (S (S (S (S (S (S (S (S (S (S (S (S (S (S (S (S (S
    (S (S (S (S (S (S (S (S (S (S (S (S
    O))))))))))))))))))))))))))))))))))))))))))))))))))))))))))))))))))))))))))))))))))))))))))))))))))))))))))))))))))))))))))))))))))))))))))))))))))))))))))))))))))))))))))))))))))))))))))))))))))))))))))))))))))))))))))))))))))))))))))))))))))))))))))))
| Xfe ->
  S (S (S (S (S (S (S (S (S (S (S (S (S (S (S (S (S (S (S (S (S (S (S (S (S
    (S (S (S (S (S (S (S (S (S (S (S (S (S (S (S (S (S (S (S (S (S (S (S (S
    (S (S (S (S (S (S (S (S (S (S (S (S (S (S (S (S (S (S (S (S (S (S (S (S
    (S (S (S (S (S (S (S (S (S (S (S (S (S (S (S (S (S (S (S (S (S (S (S (S
    (S (S (S (S (S (S (S (S (S (S (S (S (S (S (S (S (S (S (S (S (S (S (S (S
    (S (S (S (S (S (S (S (S (S (S (S (S (S (S (S (S (S (S (S (S (S (S (S (S
    (S (S (S (S (S (S (S (S (S (S (S (S (S (S (S (S (S (S (S (S (S (S (S (S
    (S (S (S (S (S (S (S (S (S (S (S (S (S (S (S (S (S (S (S (S (S (S (S (S
    (S (S (S (S (S (S (S (S (S (S (S (S (S (S (S (S (S (S (S (S (S (S (S (S
    (S (S (S (S (S (S (S (S (S (S (S (S (S (S (S (S (S (S (S (S (S (S (S (S
    (S (S (S (S (S (S (S (S (S (S (S (S (S
    O)))))))))))))))))))))))))))))))))))))))))))))))))))))))))))))))))))))))))))))))))))))))))))))))))))))))))))))))))))))))))))))))))))))))))))))))))))))))))))))))))))))))))))))))))))))))))))))))))))))))))))))))))))))))))))))))))))))))))))))))))))))))))))))
| Xff ->
  S (S (S (S (S (S (S (S (S (S (S (S (S (S (S (S (S (S (S (S (S (S (S (S (S
    (S (S (S (S (S (S (S (S (S (S (S (S (S (S (S (S (S (S (S (S (S (S (S (S
    (S (S (S (S (S (S (S (S (S (S (S (S (S (S (S (S (S (S (S (S (S (S (S (S
    (S (S (S (S (S (S (S (S (S (S (S (S (S (S (S (S (S (S (S (S (S (S (S (S
    (S (S (S (S (S (S (S (S (S (S (S (S (S (S (S (S (S (S (S (S (S (S (S (S
    (S (S (S (S (S (S (S (S (S (S (S (S (S (S (S (S (S (S (S (S (S (S (S (S
    (S (S (S (S (S (S (S (S (S (S (S (S (S (S (S (S (S (S (S (S (S (S (S (S
    (S (S (S (S (S (S (S (S (S (S (S (S (S (S (S (S (S (S (S (S (S (S (S (S
    (S (S (S (S (S (S (S (S (S (S (S (S (S (S (S (S (S (S (S (S (S (S (S (S
    (S (S (S (S (S (S (S (S (S (S (S (S (S (S (S (S (S (S (S (S (S (S (S (S
    (S (S (S (S (S (S (S (S (S (S (S (S (S (S
    O))))))))))))))))))))))))))))))))))))))))))))))))))))))))))))))))))))))))))))))))))))))))))))))))))))))))))))))))))))))))))))))))))))))))))))))))))))))))))))))))))))))))))))))))))))))))))))))))))))))))))))))))))))))))))))))))))))))))))))))))))))))))))))))

(** val to_N : byte -> n **)

let to_N = function
| X00 -> N0
| X01 -> Npos XH
| X02 -> Npos (XO XH)
| X03 -> Npos (XI XH)
| X04 -> Npos (XO (XO XH))
| X05 -> Npos (XI (XO XH))
| X06 -> Npos (XO (XI XH))
| X07 -> Npos (XI (XI XH))
| X08 -> Npos (XO (XO (XO XH)))
| X09 -> Npos (XI (XO (XO XH)))
| X0a -> Npos (XO (XI (XO XH)))
| X0b -> Npos (XI (XI (XO XH)))
| X0c -> Npos (XO (XO (XI XH)))
| X0d -> Npos (XI (XO (XI XH)))
| X0e -> Npos (XO (XI (XI XH)))
| X0f -> Npos (XI (XI (XI XH)))
| X10 -> Npos (XO (XO (XO (XO XH))))
| X11 -> Npos (XI (XO (XO (XO XH))))
| X12 -> Npos (XO (XI (XO (XO XH))))
| X13 -> Npos (XI (XI (XO (XO XH))))
| X14 -> Npos (XO (XO (XI (XO XH))))
| X15 -> Npos (XI (XO (XI (XO XH))))
| X16 -> Npos (XO (XI (XI (XO XH))))
| X17 -> Npos (XI (XI (XI (XO XH))))
| X18 -> Npos (XO (XO (XO (XI XH))))
| X19 -> Npos (XI (XO (XO (XI XH))))
| X1a -> Npos (XO (XI (XO (XI XH))))
| X1b -> Npos (XI (XI (XO (XI XH))))
| X1c -> Npos (XO (XO (XI (XI XH))))
| X1d -> Npos (XI (XO (XI (XI XH))))
| X1e -> Npos (XO (XI (XI (XI XH))))
| X1f -> Npos (XI (XI (XI (XI XH))))
| X20 -> Npos (XO (XO (XO (XO (XO XH)))))
| X21 -> Npos (XI (XO (XO (XO (XO XH)))))
| X22 -> Npos (XO (XI (XO (XO (XO XH)))))
| X23 -> Npos (XI (XI (XO (XO (XO XH)))))
| X24 -> Npos (XO (XO (XI (XO (XO XH)))))
| X25 -> Npos (XI (XO (XI (XO (XO XH)))))
| X26 -> Npos (XO (XI (XI (XO (XO XH)))))
| X27 -> Npos (XI (XI (XI (XO (XO XH)))))
| X28 -> Npos (XO (XO (XO (XI (XO XH)))))
| X29 -> Npos (XI (XO (XO (XI (XO XH)))))
| X2a -> Npos (XO (XI (XO (XI (XO XH)))))
| X2b -> Npos (XI (XI (XO (XI (XO XH)))))
| X2c -> Npos (XO (XO (XI (XI (XO XH)))))
| X2d -> Npos (XI (XO (XI (XI (XO XH)))))
| X2e -> Npos (XO (XI (XI (XI (XO XH)))))
| X2f -> Npos (XI (XI (XI (XI (XO XH)))))
| X30 -> Npos (XO (XO (XO (XO (XI XH)))))
| X31 -> Npos (XI (XO (XO (XO (XI XH)))))
| X32 -> Npos (XO (XI (XO (XO (XI XH)))))
| X33 -> Npos (XI (XI (XO (XO (XI XH)))))
| X34 -> Npos (XO (XO (XI (XO (XI XH)))))
| X35 -> Npos (XI (XO (XI (XO (XI XH)))))
| X36 -> Npos (XO (XI (XI (XO (XI XH)))))
| X37 -> Npos (XI (XI (XI (XO (XI XH)))))
| X38 -> Npos (XO (XO (XO (XI (XI XH)))))
| X39 -> Npos (XI (XO (XO (XI (XI XH)))))
| X3a -> Npos (XO (XI (XO (XI (XI XH)))))
| X3b -> Npos (XI (XI (XO (XI (XI XH)))))
| X3c -> Npos (XO (XO (XI (XI (XI XH)))))
| X3d -> Npos (XI (XO (XI (XI (XI XH)))))
| X3e -> Npos (XO (XI (XI (XI (XI XH)))))
| X3f -> Npos (XI (XI (XI (XI (XI XH)))))
| X40 -> Npos (XO (XO (XO (XO (XO (XO XH))))))
| X41 -> Npos (XI (XO (XO (XO (XO (XO XH))))))
| X42 -> Npos (XO (XI (XO (XO (XO (XO XH))))))
| X43 -> Npos (XI (XI (XO (XO (XO (XO XH))))))
| X44 -> Npos (XO (XO (XI (XO (XO (XO XH))))))
| X45 -> Npos (XI (XO (XI (XO (XO (XO XH))))))
| X46 -> Npos (XO (XI (XI (XO (XO (XO XH))))))
| X47 -> Npos (XI (XI (XI (XO (XO (XO XH))))))
| X48 -> Npos (XO (XO (XO (XI (XO (XO XH))))))
| X49 -> Npos (XI (XO (XO (XI (XO (XO XH))))))
| X4a -> Npos (XO (XI (XO (XI (XO (XO XH))))))
| X4b -> Npos (XI (XI (XO (XI (XO (XO XH))))))
| X4c -> Npos (XO (XO (XI (XI (XO (XO XH))))))
| X4d -> Npos (XI (XO (XI (XI (XO (XO XH))))))
| X4e -> Npos (XO (XI (XI (XI (XO (XO XH))))))
| X4f -> Npos (XI (XI (XI (XI (XO (XO XH))))))
| X50 -> Npos (XO (XO (XO (XO (XI (XO XH))))))
| X51 -> Npos (XI (XO (XO (XO (XI (XO XH))))))
| X52 -> Npos (XO (XI (XO (XO (XI (XO XH))))))
| X53 -> Npos (XI (XI (XO (XO (XI (XO XH))))))
| X54 -> Npos (XO (XO (XI (XO (XI (XO XH))))))
| X55 -> Npos (XI (XO (XI (XO (XI (XO XH))))))
| X56 -> Npos (XO (XI (XI (XO (XI (XO XH))))))
| X57 -> Npos (XI (XI (XI (XO (XI (XO XH))))))
| X58 -> Npos (XO (XO (XO (XI (XI (XO XH))))))
| X59 -> Npos (XI (XO (XO (XI (XI (XO XH))))))
| X5a -> Npos (XO (XI (XO (XI (XI (XO XH))))))
| X5b -> Npos (XI (XI (XO (XI (XI (XO XH))))))
| X5c -> Npos (XO (XO (XI (XI (XI (XO XH))))))
| X5d -> Npos (XI (XO (XI (XI (XI (XO XH))))))
| X5e -> Npos (XO (XI (XI (XI (XI (XO XH))))))
| X5f -> Npos (XI (XI (XI (XI (XI (XO XH))))))
| X60 -> Npos (XO (XO (XO (XO (XO (XI XH))))))
| X61 -> Npos (XI (XO (XO (XO (XO (XI XH))))))
| X62 -> Npos (XO (XI (XO (XO (XO (XI XH))))))
| X63 -> Npos (XI (XI (XO (XO (XO (XI XH))))))
| X64 -> Npos (XO (XO (XI (XO (XO (XI XH))))))
| X65 -> Npos (XI (XO (XI (XO (XO (XI XH))))))
| X66 -> Npos (XO (XI (XI (XO (XO (XI XH))))))
| X67 -> Npos (XI (XI (XI (XO (XO (XI XH))))))
| X68 -> Npos (XO (XO (XO (XI (XO (XI XH))))))
| X69 -> Npos (XI (XO (XO (XI (XO (XI XH))))))
| X6a -> Npos (XO (XI (XO (XI (XO (XI XH))))))
| X6b -> Npos (XI (XI (XO (XI (XO (XI XH))))))
| X6c -> Npos (XO (XO (XI (XI (XO (XI XH))))))
| X6d -> Npos (XI (XO (XI (XI (XO (XI XH))))))
| X6e -> Npos (XO (XI (XI (XI (XO (XI XH))))))
| X6f -> Npos (XI (XI (XI (XI (XO (XI XH))))))
| X70 -> Npos (XO (XO (XO (XO (XI (XI XH))))))
| X71 -> Npos (XI (XO (XO (XO (XI (XI XH))))))
| X72 -> Npos (XO (XI (XO (XO (XI (XI XH))))))
| X73 -> Npos (XI (XI (XO (XO (XI (XI XH))))))
| X74 -> Npos (XO (XO (XI (XO (XI (XI XH))))))
| X75 -> Npos (XI (XO (XI (XO (XI (XI XH))))))
| X76 -> Npos (XO (XI (XI (XO (XI (XI XH))))))
| X77 -> Npos (XI (XI (XI (XO (XI (XI XH))))))
| X78 -> Npos (XO (XO (XO (XI (XI (XI XH))))))
| X79 -> Npos (XI (XO (XO (XI (XI (XI XH))))))
| X7a -> Npos (XO (XI (XO (XI (XI (XI XH))))))
| X7b -> Npos (XI (XI (XO (XI (XI (XI XH))))))
| X7c -> Npos (XO (XO (XI (XI (XI (XI XH))))))
| X7d -> Npos (XI (XO (XI (XI (XI (XI XH))))))
| X7e -> Npos (XO (XI (XI (XI (XI (XI XH))))))
| X7f -> Npos (XI (XI (XI (XI (XI (XI XH))))))
| X80 -> Npos (XO (XO (XO (XO (XO (XO (XO XH)))))))
| X81 -> Npos (XI (XO (XO (XO (XO (XO (XO XH)))))))
| X82 -> Npos (XO (XI (XO (XO (XO (XO (XO XH)))))))
| X83 -> Npos (XI (XI (XO (XO (XO (XO (XO XH)))))))
| X84 -> Npos (XO (XO (XI (XO (XO (XO (XO XH)))))))
| X85 -> Npos (XI (XO (XI (XO (XO (XO (XO XH)))))))
| X86 -> Npos (XO (XI (XI (XO (XO (XO (XO XH)))))))
| X87 -> Npos (XI (XI (XI (XO (XO (XO (XO XH)))))))
| X88 -> Npos (XO (XO (XO (XI (XO (XO (XO XH)))))))
| X89 -> Npos (XI (XO (XO (XI (XO (XO (XO XH)))))))
| X8a -> Npos (XO (XI (XO (XI (XO (XO (XO XH)))))))
| X8b -> Npos (XI (XI (XO (XI (XO (XO (XO XH)))))))
| X8c -> Npos (XO (XO (XI (XI (XO (XO (XO XH)))))))
| X8d -> Npos (XI (XO (XI (XI (XO (XO (XO XH)))))))
| X8e -> Npos (XO (XI (XI (XI (XO (XO (XO XH)))))))
| X8f -> Npos (XI (XI (XI (XI (XO (XO (XO XH)))))))
| X90 -> Npos (XO (XO (XO (XO (XI (XO (XO XH)))))))
| X91 -> Npos (XI (XO (XO (XO (XI (XO (XO XH)))))))
| X92 -> Npos (XO (XI (XO (XO (XI (XO (XO XH)))))))
| X93 -> Npos (XI (XI (XO (XO (XI (XO (XO XH)))))))
| X94 -> Npos (XO (XO (XI (XO (XI (XO (XO XH)))))))
| X95 -> Npos (XI (XO (XI (XO (XI (XO (XO XH)))))))
| X96 -> Npos (XO (XI (XI (XO (XI (XO (XO XH)))))))
| X97 -> Npos (XI (XI (XI (XO (XI (XO (XO XH)))))))
| X98 -> Npos (XO (XO (XO (XI (XI (XO (XO XH)))))))
| X99 -> Npos (XI (XO (XO (XI (XI (XO (XO XH)))))))
| X9a -> Npos (XO (XI (XO (XI (XI (XO (XO XH)))))))
| X9b -> Npos (XI (XI (XO (XI (XI (XO (XO XH)))))))
| X9c -> Npos (XO (XO (XI (XI (XI (XO (XO XH)))))))
| X9d -> Npos (XI (XO (XI (XI (XI (XO (XO XH)))))))
| X9e -> Npos (XO (XI (XI (XI (XI (XO (XO XH)))))))
| X9f -> Npos (XI (XI (XI (XI (XI (XO (XO XH)))))))
| Xa0 -> Npos (XO (XO (XO (XO (XO (XI (XO XH)))))))
| Xa1 -> Npos (XI (XO (XO (XO (XO (XI (XO XH)))))))
| Xa2 -> Npos (XO (XI (XO (XO (XO (XI (XO XH)))))))
| Xa3 -> Npos (XI (XI (XO (XO (XO (XI (XO XH)))))))
| Xa4 -> Npos (XO (XO (XI (XO (XO (XI (XO XH)))))))
| Xa5 -> Npos (XI (XO (XI (XO (XO (XI (XO XH)))))))
| Xa6 -> Npos (XO (XI (XI (XO (XO (XI (XO XH)))))))
| Xa7 -> Npos (XI (XI (XI (XO (XO (XI (XO XH)))))))
| Xa8 -> Npos (XO (XO (XO (XI (XO (XI (XO XH)))))))
| Xa9 -> Npos (XI (XO (XO (XI (XO (XI (XO XH)))))))
| Xaa -> Npos (XO (XI (XO (XI (XO (XI (XO XH)))))))
| Xab -> Npos (XI (XI (XO (XI (XO (XI (XO XH)))))))
| Xac -> Npos (XO (XO (XI (XI (XO (XI (XO XH)))))))
| Xad -> Npos (XI (XO (XI (XI (XO (XI (XO XH)))))))
| Xae -> Npos (XO (XI (XI (XI (XO (XI (XO XH)))))))
| Xaf -> Npos (XI (XI (XI (XI (XO (XI (XO XH)))))))
| Xb0 -> Npos (XO (XO (XO (XO (XI (XI (XO XH)))))))
| Xb1 -> Npos (XI (XO (XO (XO (XI (XI (XO XH)))))))
| Xb2 -> Npos (XO (XI (XO (XO (XI (XI (XO XH)))))))
| Xb3 -> Npos (XI (XI (XO (XO (XI (XI (XO XH)))))))
| Xb4 -> Npos (XO (XO (XI (XO (XI (XI (XO XH)))))))
| Xb5 -> Npos (XI (XO (XI (XO (XI (XI (XO XH)))))))
| Xb6 -> Npos (XO (XI (XI (XO (XI (XI (XO XH)))))))
| Xb7 -> Npos (XI (XI (XI (XO (XI (XI (XO XH)))))))
| Xb8 -> Npos (XO (XO (XO (XI (XI (XI (XO XH)))))))
| Xb9 -> Npos (XI (XO (XO (XI (XI (XI (XO XH)))))))
| Xba -> Npos (XO (XI (XO (XI (XI (XI (XO XH)))))))
| Xbb -> Npos (XI (XI (XO (XI (XI (XI (XO XH)))))))
| Xbc -> Npos (XO (XO (XI (XI (XI (XI (XO XH)))))))
| Xbd -> Npos (XI (XO (XI (XI (XI (XI (XO XH)))))))
| Xbe -> Npos (XO (XI (XI (XI (XI (XI (XO XH)))))))
| Xbf -> Npos (XI (XI (XI (XI (XI (XI (XO XH)))))))
| Xc0 -> Npos (XO (XO (XO (XO (XO (XO (XI XH)))))))
| Xc1 -> Npos (XI (XO (XO (XO (XO (XO (XI XH)))))))
| Xc2 -> Npos (XO (XI (XO (XO (XO (XO (XI XH)))))))
| Xc3 -> Npos (XI (XI (XO (XO (XO (XO (XI XH)))))))
| Xc4 -> Npos (XO (XO (XI (XO (XO (XO (XI XH)))))))
| Xc5 -> Npos (XI (XO (XI (XO (XO (XO (XI XH)))))))
| Xc6 -> Npos (XO (XI (XI (XO (XO (XO (XI XH)))))))
| Xc7 -> Npos (XI (XI (XI (XO (XO (XO (XI XH)))))))
| Xc8 -> Npos (XO (XO (XO (XI (XO (XO (XI XH)))))))
| Xc9 -> Npos (XI (XO (XO (XI (XO (XO (XI XH)))))))
| Xca -> Npos (XO (XI (XO (XI (XO (XO (XI XH)))))))
| Xcb -> Npos (XI (XI (XO (XI (XO (XO (XI XH)))))))
| Xcc -> Npos (XO (XO (XI (XI (XO (XO (XI XH)))))))
| Xcd -> Npos (XI (XO (XI (XI (XO (XO (XI XH)))))))
| Xce -> Npos (XO (XI (XI (XI (XO (XO (XI XH)))))))
| Xcf -> Npos (XI (XI (XI (XI (XO (XO (XI XH)))))))
| Xd0 -> Npos (XO (XO (XO (XO (XI (XO (XI XH)))))))
| Xd1 -> Npos (XI (XO (XO (XO (XI (XO (XI XH)))))))
| Xd2 -> Npos (XO (XI (XO (XO (XI (XO (XI XH)))))))
| Xd3 -> Npos (XI (XI (XO (XO (XI (XO (XI XH)))))))
| Xd4 -> Npos (XO (XO (XI (XO (XI (XO (XI XH)))))))
| Xd5 -> Npos (XI (XO (XI (XO (XI (XO (XI XH)))))))
| Xd6 -> Npos (XO (XI (XI (XO (XI (XO (XI XH)))))))
| Xd7 -> Npos (XI (XI (XI (XO (XI (XO (XI XH)))))))
| Xd8 -> Npos (XO (XO (XO (XI (XI (XO (XI XH)))))))
| Xd9 -> Npos (XI (XO (XO (XI (XI (XO (XI XH)))))))
| Xda -> Npos (XO (XI (XO (XI (XI (XO (XI XH)))))))
| Xdb -> Npos (XI (XI (XO (XI (XI (XO (XI XH)))))))
| Xdc -> Npos (XO (XO (XI (XI (XI (XO (XI XH)))))))
| Xdd -> Npos (XI (XO (XI (XI (XI (XO (XI XH)))))))
| Xde -> Npos (XO (XI (XI (XI (XI (XO (XI XH)))))))
| Xdf -> Npos (XI (XI (XI (XI (XI (XO (XI XH)))))))
| Xe0 -> Npos (XO (XO (XO (XO (XO (XI (XI XH)))))))
| Xe1 -> Npos (XI (XO (XO (XO (XO (XI (XI XH)))))))
| Xe2 -> Npos (XO (XI (XO (XO (XO (XI (XI XH)))))))
| Xe3 -> Npos (XI (XI (XO (XO (XO (XI (XI XH)))))))
| Xe4 -> Npos (XO (XO (XI (XO (XO (XI (XI XH)))))))
| Xe5 -> Npos (XI (XO (XI (XO (XO (XI (XI XH)))))))
| Xe6 -> Npos (XO (XI (XI (XO (XO (XI (XI XH)))))))
| Xe7 -> Npos (XI (XI (XI (XO (XO (XI (XI XH)))))))
| Xe8 -> Npos (XO (XO (XO (XI (XO (XI (XI XH)))))))
| Xe9 -> Npos (XI (XO (XO (XI (XO (XI (XI XH)))))))
| Xea -> Npos (XO (XI (XO (XI (XO (XI (XI XH)))))))
| Xeb -> Npos (XI (XI (XO (XI (XO (XI (XI XH)))))))
| Xec -> Npos (XO (XO (XI (XI (XO (XI (XI XH)))))))
| Xed -> Npos (XI (XO (XI (XI (XO (XI (XI XH)))))))
| Xee -> Npos (XO (XI (XI (XI (XO (XI (XI XH)))))))
| Xef -> Npos (XI (XI (XI (XI (XO (XI (XI XH)))))))
| Xf0 -> Npos (XO (XO (XO (XO (XI (XI (XI XH)))))))
| Xf1 -> Npos (XI (XO (XO (XO (XI (XI (XI XH)))))))
| Xf2 -> Npos (XO (XI (XO (XO (XI (XI (XI XH)))))))
| Xf3 -> Npos (XI (XI (XO (XO (XI (XI (XI XH)))))))
| Xf4 -> Npos (XO (XO (XI (XO (XI (XI (XI XH)))))))
| Xf5 -> Npos (XI (XO (XI (XO (XI (XI (XI XH)))))))
| Xf6 -> Npos (XO (XI (XI (XO (XI (XI (XI XH)))))))
| Xf7 -> Npos (XI (XI (XI (XO (XI (XI (XI XH)))))))
| Xf8 -> Npos (XO (XO (XO (XI (XI (XI (XI XH)))))))
| Xf9 -> Npos (XI (XO (XO (XI (XI (XI (XI XH)))))))
| Xfa -> Npos (XO (XI (XO (XI (XI (XI (XI XH)))))))
| Xfb -> Npos (XI (XI (XO (XI (XI (XI (XI XH)))))))
| Xfc -> Npos (XO (XO (XI (XI (XI (XI (XI XH)))))))
| Xfd -> Npos (XI (XO (XI (XI (XI (XI (XI XH)))))))
| Xfe -> Npos (XO (XI (XI (XI (XI (XI (XI XH)))))))
| Xff -> Npos (XI (XI (XI (XI (XI (XI (XI XH)))))))

(** val of_N : n -> byte option **)

let of_N = function
| N0 -> Some X00
| Npos p ->
  (match p with
   | XI p0 ->
     (match p0 with
      | XI p1 ->
        (match p1 with
         | XI p2 ->
           (match p2 with
            | XI p3 ->
              (match p3 with
               | XI p4 ->
                 (match p4 with
                  | XI p5 ->
                    (match p5 with
                     | XI p6 -> (match p6 with
                                 | XH -> Some Xff
                                 | _ -> None)
                     | XO p6 -> (match p6 with
                                 | XH -> Some Xbf
                                 | _ -> None)
                     | XH -> Some X7f)
                  | XO p5 ->
                    (match p5 with
                     | XI p6 -> (match p6 with
                                 | XH -> Some Xdf
                                 | _ -> None)
                     | XO p6 -> (match p6 with
                                 | XH -> Some X9f
                                 | _ -> None)
                     | XH -> Some X5f)
                  | XH -> Some X3f)
               | XO p4 ->
                 (match p4 with
                  | XI p5 ->
                    (match p5 with
                     | XI p6 -> (match p6 with
                                 | XH -> Some Xef
                                 | _ -> None)
                     | XO p6 -> (match p6 with
                                 | XH -> Some Xaf
                                 | _ -> None)
                     | XH -> Some X6f)
                  | XO p5 ->
                    (match p5 with
                     | XI p6 -> (match p6 with
                                 | XH -> Some Xcf
                                 | _ -> None)
                     | XO p6 -> (match p6 with
                                 | XH -> Some X8f
                                 | _ -> None)
                     | XH -> Some X4f)
                  | XH -> Some X2f)
               | XH -> Some X1f)
            | XO p3 ->
              (match p3 with
               | XI p4 ->
                 (match p4 with
                  | XI p5 ->
                    (match p5 with
                     | XI p6 -> (match p6 with
                                 | XH -> Some Xf7
                                 | _ -> None)
                     | XO p6 -> (match p6 with
                                 | XH -> Some Xb7
                                 | _ -> None)
                     | XH -> Some X77)
                  | XO p5 ->
                    (match p5 with
                     | XI p6 -> (match p6 with
                                 | XH -> Some Xd7
                                 | _ -> None)
                     | XO p6 -> (match p6 with
                                 | XH -> Some X97
                                 | _ -> None)
                     | XH -> Some X57)
                  | XH -> Some X37)
               | XO p4 ->
                 (match p4 with
                  | XI p5 ->
                    (match p5 with
                     | XI p6 -> (match p6 with
                                 | XH -> Some Xe7
                                 | _ -> None)
                     | XO p6 -> (match p6 with
                                 | XH -> Some Xa7
                                 | _ -> None)
                     | XH -> Some X67)
                  | XO p5 ->
                    (match p5 with
                     | XI p6 -> (match p6 with
                                 | XH -> Some Xc7
                                 | _ -> None)
                     | XO p6 -> (match p6 with
                                 | XH -> Some X87
                                 | _ -> None)
                     | XH -> Some X47)
                  | XH -> Some X27)
               | XH -> Some X17)
            | XH -> Some X0f)
         | XO p2 ->
           (match p2 with
            | XI p3 ->
              (match p3 with
               | XI p4 ->
                 (match p4 with
                  | XI p5 ->
                    (match p5 with
                     | XI p6 -> (match p6 with
                                 | XH -> Some Xfb
                                 | _ -> None)
                     | XO p6 -> (match p6 with
                                 | XH -> Some Xbb
                                 | _ -> None)
                     | XH -> Some X7b)
                  | XO p5 ->
                    (match p5 with
                     | XI p6 -> (match p6 with
                                 | XH -> Some Xdb
                                 | _ -> None)
                     | XO p6 -> (match p6 with
                                 | XH -> Some X9b
                                 | _ -> None)
                     | XH -> Some X5b)
                  | XH -> Some X3b)
               | XO p4 ->
                 (match p4 with
                  | XI p5 ->
                    (match p5 with
                     | XI p6 -> (match p6 with
                                 | XH -> Some Xeb
                                 | _ -> None)
                     | XO p6 -> (match p6 with
                                 | XH -> Some Xab
                                 | _ -> None)
                     | XH -> Some X6b)
                  | XO p5 ->
                    (match p5 with
                     | XI p6 -> (match p6 with
                                 | XH -> Some Xcb
                                 | _ -> None)
                     | XO p6 -> (match p6 with
                                 | XH -> Some X8b
                                 | _ -> None)
                     | XH -> Some X4b)
                  | XH -> Some X2b)
               | XH -> Some X1b)
            | XO p3 ->
              (match p3 with
               | XI p4 ->
                 (match p4 with
                  | XI p5 ->
                    (match p5 with
                     | XI p6 -> (match p6 with
                                 | XH -> Some Xf3
                                 | _ -> None)
                     | XO p6 -> (match p6 with
                                 | XH -> Some Xb3
                                 | _ -> None)
                     | XH -> Some X73)
                  | XO p5 ->
                    (match p5 with
                     | XI p6 -> (match p6 with
                                 | XH -> Some Xd3
                                 | _ -> None)
                     | XO p6 -> (match p6 with
                                 | XH -> Some X93
                                 | _ -> None)
                     | XH -> Some X53)
                  | XH -> Some X33)
               | XO p4 ->
                 (match p4 with
                  | XI p5 ->
                    (match p5 with
                     | XI p6 -> (match p6 with
                                 | XH -> Some Xe3
                                 | _ -> None)
                     | XO p6 -> (match p6 with
                                 | XH -> Some Xa3
                                 | _ -> None)
                     | XH -> Some X63)
                  | XO p5 ->
                    (match p5 with
                     | XI p6 -> (match p6 with
                                 | XH -> Some Xc3
                                 | _ -> None)
                     | XO p6 -> (match p6 with
                                 | XH -> Some X83
                                 | _ -> None)
                     | XH -> Some X43)
                  | XH -> Some X23)
               | XH -> Some X13)
            | XH -> Some X0b)
         | XH -> Some X07)
      | XO p1 ->
        (match p1 with
         | XI p2 ->
           (match p2 with
            | XI p3 ->
              (match p3 with
               | XI p4 ->
                 (match p4 with
                  | XI p5 ->
                    (match p5 with
                     | XI p6 -> (match p6 with
                                 | XH -> Some Xfd
                                 | _ -> None)
                     | XO p6 -> (match p6 with
                                 | XH -> Some Xbd
                                 | _ -> None)
                     | XH -> Some X7d)
                  | XO p5 ->
                    (match p5 with
                     | XI p6 -> (match p6 with
                                 | XH -> Some Xdd
                                 | _ -> None)
                     | XO p6 -> (match p6 with
                                 | XH -> Some X9d
                                 | _ -> None)
                     | XH -> Some X5d)
                  | XH -> Some X3d)
               | XO p4 ->
                 (match p4 with
                  | XI p5 ->
                    (match p5 with
                     | XI p6 -> (match p6 with
                                 | XH -> Some Xed
                                 | _ -> None)
                     | XO p6 -> (match p6 with
                                 | XH -> Some Xad
                                 | _ -> None)
                     | XH -> Some X6d)
                  | XO p5 ->
                    (match p5 with
                     | XI p6 -> (match p6 with
                                 | XH -> Some Xcd
                                 | _ -> None)
                     | XO p6 -> (match p6 with
                                 | XH -> Some X8d
                                 | _ -> None)
                     | XH -> Some X4d)
                  | XH -> Some X2d)
               | XH -> Some X1d)
            | XO p3 ->
              (match p3 with
               | XI p4 ->
                 (match p4 with
                  | XI p5 ->
                    (match p5 with
                     | XI p6 -> (match p6 with
                                 | XH -> Some Xf5
                                 | _ -> None)
                     | XO p6 -> (match p6 with
                                 | XH -> Some Xb5
                                 | _ -> None)
                     | XH -> Some X75)
                  | XO p5 ->
                    (match p5 with
                     | XI p6 -> (match p6 with
                                 | XH -> Some Xd5
                                 | _ -> None)
                     | XO p6 -> (match p6 with
                                 | XH -> Some X95
                                 | _ -> None)
                     | XH -> Some X55)
                  | XH -> Some X35)
               | XO p4 ->
                 (match p4 with
                  | XI p5 ->
                    (match p5 with
                     | XI p6 -> (match p6 with
                                 | XH -> Some Xe5
                                 | _ -> None)
                     | XO p6 -> (match p6 with
                                 | XH -> Some Xa5
                                 | _ -> None)
                     | XH -> Some X65)
                  | XO p5 ->
                    (match p5 with
                     | XI p6 -> (match p6 with
                                 | XH -> Some Xc5
                                 | _ -> None)
                     | XO p6 -> (match p6 with
                                 | XH -> Some X85
                                 | _ -> None)
                     | XH -> Some X45)
                  | XH -> Some X25)
               | XH -> Some X15)
            | XH -> Some X0d)
         | XO p2 ->
           (match p2 with
            | XI p3 ->
              (match p3 with
               | XI p4 ->
                 (match p4 with
                  | XI p5 ->
                    (match p5 with
                     | XI p6 -> (match p6 with
                                 | XH -> Some Xf9
                                 | _ -> None)
                     | XO p6 -> (match p6 with
                                 | XH -> Some Xb9
                                 | _ -> None)
                     | XH -> Some X79)
                  | XO p5 ->
                    (match p5 with
                     | XI p6 -> (match p6 with
                                 | XH -> Some Xd9
                                 | _ -> None)
                     | XO p6 -> (match p6 with
                                 | XH -> Some X99
                                 | _ -> None)
                     | XH -> Some X59)
                  | XH -> Some X39)
               | XO p4 ->
                 (match p4 with
                  | XI p5 ->
                    (match p5 with
                     | XI p6 -> (match p6 with
                                 | XH -> Some Xe9
                                 | _ -> None)
                     | XO p6 -> (match p6 with
                                 | XH -> Some Xa9
                                 | _ -> None)
                     | XH -> Some X69)
                  | XO p5 ->
                    (match p5 with
                     | XI p6 -> (match p6 with
                                 | XH -> Some Xc9
                                 | _ -> None)
                     | XO p6 -> (match p6 with
                                 | XH -> Some X89
                                 | _ -> None)
                     | XH -> Some X49)
                  | XH -> Some X29)
               | XH -> Some X19)
            | XO p3 ->
              (match p3 with
               | XI p4 ->
                 (match p4 with
                  | XI p5 ->
                    (match p5 with
                     | XI p6 -> (match p6 with
                                 | XH -> Some Xf1
                                 | _ -> None)
                     | XO p6 -> (match p6 with
                                 | XH -> Some Xb1
                                 | _ -> None)
                     | XH -> Some X71)
                  | XO p5 ->
                    (match p5 with
                     | XI p6 -> (match p6 with
                                 | XH -> Some Xd1
                                 | _ -> None)
                     | XO p6 -> (match p6 with
                                 | XH -> Some X91
                                 | _ -> None)
                     | XH -> Some X51)
                  | XH -> Some X31)
               | XO p4 ->
                 (match p4 with
                  | XI p5 ->
                    (match p5 with
                     | XI p6 -> (match p6 with
                                 | XH -> Some Xe1
                                 | _ -> None)
                     | XO p6 -> (match p6 with
                                 | XH -> Some Xa1
                                 | _ -> None)
                     | XH -> Some X61)
                  | XO p5 ->
                    (match p5 with
                     | XI p6 -> (match p6 with
                                 | XH -> Some Xc1
                                 | _ -> None)
                     | XO p6 -> (match p6 with
                                 | XH -> Some X81
                                 | _ -> None)
                     | XH -> Some X41)
                  | XH -> Some X21)
               | XH -> Some X11)
            | XH -> Some X09)
         | XH -> Some X05)
      | XH -> Some X03)
   | XO p0 ->
     (match p0 with
      | XI p1 ->
        (match p1 with
         | XI p2 ->
           (match p2 with
            | XI p3 ->
              (match p3 with
               | XI p4 ->
                 (match p4 with
                  | XI p5 ->
                    (match p5 with
                     | XI p6 -> (match p6 with
                                 | XH -> Some Xfe
                                 | _ -> None)
                     | XO p6 -> (match p6 with
                                 | XH -> Some Xbe
                                 | _ -> None)
                     | XH -> Some X7e)
                  | XO p5 ->
                    (match p5 with
                     | XI p6 -> (match p6 with
                                 | XH -> Some Xde
                                 | _ -> None)
                     | XO p6 -> (match p6 with
                                 | XH -> Some X9e
                                 | _ -> None)
                     | XH -> Some X5e)
                  | XH -> Some X3e)
               | XO p4 ->
                 (match p4 with
                  | XI p5 ->
                    (match p5 with
                     | XI p6 -> (match p6 with
                                 | XH -> Some Xee
                                 | _ -> None)
                     | XO p6 -> (match p6 with
                                 | XH -> Some Xae
                                 | _ -> None)
                     | XH -> Some X6e)
                  | XO p5 ->
                    (match p5 with
                     | XI p6 -> (match p6 with
                                 | XH -> Some Xce
                                 | _ -> None)
                     | XO p6 -> (match p6 with
                                 | XH -> Some X8e
                                 | _ -> None)
                     | XH -> Some X4e)
                  | XH -> Some X2e)
               | XH -> Some X1e)
            | XO p3 ->
              (match p3 with
               | XI p4 ->
                 (match p4 with
                  | XI p5 ->
                    (match p5 with
                     | XI p6 -> (match p6 with
                                 | XH -> Some Xf6
                                 | _ -> None)
                     | XO p6 -> (match p6 with
                                 | XH -> Some Xb6
                                 | _ -> None)
                     | XH -> Some X76)
                  | XO p5 ->
                    (match p5 with
                     | XI p6 -> (match p6 with
                                 | XH -> Some Xd6
                                 | _ -> None)
                     | XO p6 -> (match p6 with
                                 | XH -> Some X96
                                 | _ -> None)
                     | XH -> Some X56)
                  | XH -> Some X36)
               | XO p4 ->
                 (match p4 with
                  | XI p5 ->
                    (match p5 with
                     | XI p6 -> (match p6 with
                                 | XH -> Some Xe6
                                 | _ -> None)
                     | XO p6 -> (match p6 with
                                 | XH -> Some Xa6
                                 | _ -> None)
                     | XH -> Some X66)
                  | XO p5 ->
                    (match p5 with
                     | XI p6 -> (match p6 with
                                 | XH -> Some Xc6
                                 | _ -> None)
                     | XO p6 -> (match p6 with
                                 | XH -> Some X86
                                 | _ -> None)
                     | XH -> Some X46)
                  | XH -> Some X26)
               | XH -> Some X16)
            | XH -> Some X0e)
         | XO p2 ->
           (match p2 with
            | XI p3 ->
              (match p3 with
               | XI p4 ->
                 (match p4 with
                  | XI p5 ->
                    (match p5 with
                     | XI p6 -> (match p6 with
                                 | XH -> Some Xfa
                                 | _ -> None)
                     | XO p6 -> (match p6 with
                                 | XH -> Some Xba
                                 | _ -> None)
                     | XH -> Some X7a)
                  | XO p5 ->
                    (match p5 with
                     | XI p6 -> (match p6 with
                                 | XH -> Some Xda
                                 | _ -> None)
                     | XO p6 -> (match p6 with
                                 | XH -> Some X9a
                                 | _ -> None)
                     | XH -> Some X5a)
                  | XH -> Some X3a)
               | XO p4 ->
                 (match p4 with
                  | XI p5 ->
                    (match p5 with
                     | XI p6 -> (match p6 with
                                 | XH -> Some Xea
                                 | _ -> None)
                     | XO p6 -> (match p6 with
                                 | XH -> Some Xaa
                                 | _ -> None)
                     | XH -> Some X6a)
                  | XO p5 ->
                    (match p5 with
                     | XI p6 -> (match p6 with
                                 | XH -> Some Xca
                                 | _ -> None)
                     | XO p6 -> (match p6 with
                                 | XH -> Some X8a
                                 | _ -> None)
                     | XH -> Some X4a)
                  | XH -> Some X2a)
               | XH -> Some X1a)
            | XO p3 ->
              (match p3 with
               | XI p4 ->
                 (match p4 with
                  | XI p5 ->
                    (match p5 with
                     | XI p6 -> (match p6 with
                                 | XH -> Some Xf2
                                 | _ -> None)
                     | XO p6 -> (match p6 with
                                 | XH -> Some Xb2
                                 | _ -> None)
                     | XH -> Some X72)
                  | XO p5 ->
                    (match p5 with
                     | XI p6 -> (match p6 with
                                 | XH -> Some Xd2
                                 | _ -> None)
                     | XO p6 -> (match p6 with
                                 | XH -> Some X92
                                 | _ -> None)
                     | XH -> Some X52)
                  | XH -> Some X32)
               | XO p4 ->
                 (match p4 with
                  | XI p5 ->
                    (match p5 with
                     | XI p6 -> (match p6 with
                                 | XH -> Some Xe2
                                 | _ -> None)
                     | XO p6 -> (match p6 with
                                 | XH -> Some Xa2
                                 | _ -> None)
                     | XH -> Some X62)
                  | XO p5 ->
                    (match p5 with
                     | XI p6 -> (match p6 with
                                 | XH -> Some Xc2
                                 | _ -> None)
                     | XO p6 -> (match p6 with
                                 | XH -> Some X82
                                 | _ -> None)
                     | XH -> Some X42)
                  | XH -> Some X22)
               | XH -> Some X12)
            | XH -> Some X0a)
         | XH -> Some X06)
      | XO p1 ->
        (match p1 with
         | XI p2 ->
           (match p2 with
            | XI p3 ->
              (match p3 with
               | XI p4 ->
                 (match p4 with
                  | XI p5 ->
                    (match p5 with
                     | XI p6 -> (match p6 with
                                 | XH -> Some Xfc
                                 | _ -> None)
                     | XO p6 -> (match p6 with
                                 | XH -> Some Xbc
                                 | _ -> None)
                     | XH -> Some X7c)
                  | XO p5 ->
                    (match p5 with
                     | XI p6 -> (match p6 with
                                 | XH -> Some Xdc
                                 | _ -> None)
                     | XO p6 -> (match p6 with
                                 | XH -> Some X9c
                                 | _ -> None)
                     | XH -> Some X5c)
                  | XH -> Some X3c)
               | XO p4 ->
                 (match p4 with
                  | XI p5 ->
                    (match p5 with
                     | XI p6 -> (match p6 with
                                 | XH -> Some Xec
                                 | _ -> None)
                     | XO p6 -> (match p6 with
                                 | XH -> Some Xac
                                 | _ -> None)
                     | XH -> Some X6c)
                  | XO p5 ->
                    (match p5 with
                     | XI p6 -> (match p6 with
                                 | XH -> Some Xcc
                                 | _ -> None)
                     | XO p6 -> (match p6 with
                                 | XH -> Some X8c
                                 | _ -> None)
                     | XH -> Some X4c)
                  | XH -> Some X2c)
               | XH -> Some X1c)
            | XO p3 ->
              (match p3 with
               | XI p4 ->
                 (match p4 with
                  | XI p5 ->
                    (match p5 with
                     | XI p6 -> (match p6 with
                                 | XH -> Some Xf4
                                 | _ -> None)
                     | XO p6 -> (match p6 with
                                 | XH -> Some Xb4
                                 | _ -> None)
                     | XH -> Some X74)
                  | XO p5 ->
                    (match p5 with
                     | XI p6 -> (match p6 with
                                 | XH -> Some Xd4
                                 | _ -> None)
                     | XO p6 -> (match p6 with
                                 | XH -> Some X94
                                 | _ -> None)
                     | XH -> Some X54)
                  | XH -> Some X34)
               | XO p4 ->
                 (match p4 with
                  | XI p5 ->
                    (match p5 with
                     | XI p6 -> (match p6 with
                                 | XH -> Some Xe4
                                 | _ -> None)
                     | XO p6 -> (match p6 with
                                 | XH -> Some Xa4
                                 | _ -> None)
                     | XH -> Some X64)
                  | XO p5 ->
                    (match p5 with
                     | XI p6 -> (match p6 with
                                 | XH -> Some Xc4
                                 | _ -> None)
                     | XO p6 -> (match p6 with
                                 | XH -> Some X84
                                 | _ -> None)
                     | XH -> Some X44)
                  | XH -> Some X24)
               | XH -> Some X14)
            | XH -> Some X0c)
         | XO p2 ->
           (match p2 with
            | XI p3 ->
              (match p3 with
               | XI p4 ->
                 (match p4 with
                  | XI p5 ->
                    (match p5 with
                     | XI p6 -> (match p6 with
                                 | XH -> Some Xf8
                                 | _ -> None)
                     | XO p6 -> (match p6 with
                                 | XH -> Some Xb8
                                 | _ -> None)
                     | XH -> Some X78)
                  | XO p5 ->
                    (match p5 with
                     | XI p6 -> (match p6 with
                                 | XH -> Some Xd8
                                 | _ -> None)
                     | XO p6 -> (match p6 with
                                 | XH -> Some X98
                                 | _ -> None)
                     | XH -> Some X58)
                  | XH -> Some X38)
               | XO p4 ->
                 (match p4 with
                  | XI p5 ->
                    (match p5 with
                     | XI p6 -> (match p6 with
                                 | XH -> Some Xe8
                                 | _ -> None)
                     | XO p6 -> (match p6 with
                                 | XH -> Some Xa8
                                 | _ -> None)
                     | XH -> Some X68)
                  | XO p5 ->
                    (match p5 with
                     | XI p6 -> (match p6 with
                                 | XH -> Some Xc8
                                 | _ -> None)
                     | XO p6 -> (match p6 with
                                 | XH -> Some X88
                                 | _ -> None)
                     | XH -> Some X48)
                  | XH -> Some X28)
               | XH -> Some X18)
            | XO p3 ->
              (match p3 with
               | XI p4 ->
                 (match p4 with
                  | XI p5 ->
                    (match p5 with
                     | XI p6 -> (match p6 with
                                 | XH -> Some Xf0
                                 | _ -> None)
                     | XO p6 -> (match p6 with
                                 | XH -> Some Xb0
                                 | _ -> None)
                     | XH -> Some X70)
                  | XO p5 ->
                    (match p5 with
                     | XI p6 -> (match p6 with
                                 | XH -> Some Xd0
                                 | _ -> None)
                     | XO p6 -> (match p6 with
                                 | XH -> Some X90
                                 | _ -> None)
                     | XH -> Some X50)
                  | XH -> Some X30)
               | XO p4 ->
                 (match p4 with
                  | XI p5 ->
                    (match p5 with
                     | XI p6 -> (match p6 with
                                 | XH -> Some Xe0
                                 | _ -> None)
                     | XO p6 -> (match p6 with
                                 | XH -> Some Xa0
                                 | _ -> None)
                     | XH -> Some X60)
                  | XO p5 ->
                    (match p5 with
                     | XI p6 -> (match p6 with
                                 | XH -> Some Xc0
                                 | _ -> None)
                     | XO p6 -> (match p6 with
                                 | XH -> Some X80
                                 | _ -> None)
                     | XH -> Some X40)
                  | XH -> Some X20)
               | XH -> Some X10)
            | XH -> Some X08)
         | XH -> Some X04)
      | XH -> Some X02)
   | XH -> Some X01)

type err =
| EOutOfOrder of nat
| EStepTooLong
| EPanic of nat
| EFuel

type 'a res =
| Ok of 'a
| Err of err

(** val bind : 'a1 res -> ('a1 -> 'a2 res) -> 'a2 res **)

let bind r f =
  match r with
  | Ok a -> f a
  | Err e -> Err e

(** val take_while : ('a1 -> bool) -> 'a1 list -> 'a1 list **)

let rec take_while f = function
| [] -> []
| x :: r -> if f x then x :: (take_while f r) else []

(** val drop_while : ('a1 -> bool) -> 'a1 list -> 'a1 list **)

let rec drop_while f l = match l with
| [] -> []
| x :: r -> if f x then drop_while f r else l

(** val list_eqb : ('a1 -> 'a1 -> bool) -> 'a1 list -> 'a1 list -> bool **)

let rec list_eqb eqb1 a b =
  match a with
  | [] -> (match b with
           | [] -> true
           | _ :: _ -> false)
  | x :: a' ->
    (match b with
     | [] -> false
     | y :: b' -> (&&) (eqb1 x y) (list_eqb eqb1 a' b'))

(** val bytes_eqb : byte list -> byte list -> bool **)

let bytes_eqb =
  list_eqb eqb0

(** val sum_list : nat list -> nat **)

let rec sum_list = function
| [] -> O
| x :: r -> add x (sum_list r)

(** val dedup_adj : nat list -> nat list **)

let rec dedup_adj = function
| [] -> []
| x :: r ->
  (match r with
   | [] -> x :: []
   | y :: _ -> if Nat.eqb x y then dedup_adj r else x :: (dedup_adj r))

type key = byte list

(** val nibs_of_byte : byte -> nat list **)

let nibs_of_byte b =
  let n0 = to_nat0 b in
  (Nat.div n0 (S (S (S (S (S (S (S (S (S (S (S (S (S (S (S (S
    O))))))))))))))))) :: ((Nat.modulo n0 (S (S (S (S (S (S (S (S (S (S (S (S
                             (S (S (S (S O))))))))))))))))) :: [])

(** val nibs : key -> nat list **)

let nibs k =
  flat_map nibs_of_byte k

(** val lex_cmp : nat list -> nat list -> comparison **)

let rec lex_cmp a b =
  match a with
  | [] -> (match b with
           | [] -> Eq
           | _ :: _ -> Lt)
  | x :: a' ->
    (match b with
     | [] -> Gt
     | y :: b' -> (match Nat.compare x y with
                   | Eq -> lex_cmp a' b'
                   | x0 -> x0))

(** val bytes_cmp : key -> key -> comparison **)

let bytes_cmp a b =
  lex_cmp (map to_nat0 a) (map to_nat0 b)

(** val bytes_ltb : key -> key -> bool **)

let bytes_ltb a b =
  match bytes_cmp a b with
  | Lt -> true
  | _ -> false

(** val lcp : nat list -> nat list -> nat **)

let rec lcp a b =
  match a with
  | [] -> O
  | x :: a' ->
    (match b with
     | [] -> O
     | y :: b' -> if Nat.eqb x y then S (lcp a' b') else O)

(** val adj_lcps : nat list list -> nat list **)

let rec adj_lcps = function
| [] -> []
| a :: r -> (match r with
             | [] -> []
             | b :: _ -> (lcp a b) :: (adj_lcps r))

(** val list_min : nat -> nat list -> nat **)

let rec list_min d = function
| [] -> d
| x :: r -> list_min (Nat.min d x) r

(** val even_down : nat -> nat **)

let even_down i =
  sub i (Nat.modulo i (S (S O)))

(** val label_at : bool -> nat list -> nat -> nat **)

let label_at big ns w =
  match skipn w ns with
  | [] -> O
  | a :: r ->
    if big
    then (match r with
          | [] ->
            add (S O)
              (mul a (S (S (S (S (S (S (S (S (S (S (S (S (S (S (S (S
                O)))))))))))))))))
          | b :: _ ->
            add (S O)
              (add
                (mul a (S (S (S (S (S (S (S (S (S (S (S (S (S (S (S (S
                  O))))))))))))))))) b))
    else add (S O) a

(** val wsize : bool -> nat **)

let wsize = function
| true -> S (S O)
| false -> S O

(** val label_width : bool -> nat -> nat **)

let label_width big = function
| O -> O
| S _ -> wsize big

(** val cmp_upto : nat list -> nat list -> comparison **)

let cmp_upto qrest pfx =
  lex_cmp (firstn (length pfx) qrest) pfx

(** val check_order_from : nat -> key list -> nat option **)

let rec check_order_from i = function
| [] -> None
| a :: r ->
  (match r with
   | [] -> None
   | b :: _ -> if bytes_ltb a b then check_order_from (S i) r else Some i)

(** val check_order : key list -> nat option **)

let check_order =
  check_order_from O

type raw_opt = { r_dedup : bool option; r_inner : bool option;
                 r_leaf : bool option; r_complete : bool option }

type opts = { o_dedup : bool; o_inner : bool; o_leaf : bool }

(** val normalize : raw_opt -> opts **)

let normalize r =
  let d = match r.r_dedup with
          | Some b -> b
          | None -> true in
  let i = match r.r_inner with
          | Some b -> b
          | None -> false in
  let l = match r.r_leaf with
          | Some b -> b
          | None -> false in
  (match r.r_complete with
   | Some b ->
     if b
     then { o_dedup = d; o_inner = true; o_leaf = true }
     else { o_dedup = d; o_inner = i; o_leaf = l }
   | None -> { o_dedup = d; o_inner = i; o_leaf = l })

(** val big_threshold : nat **)

let big_threshold =
  S (S (S (S (S (S (S (S (S (S O)))))))))

(** val max_step : n **)

let max_step =
  Npos (XI (XI (XI (XI (XI (XI (XI (XI (XI (XI (XI (XI (XI (XI (XI
    XH)))))))))))))))

type tree =
| Leaf of nat * nat * byte list option * nat
| Inner of nat * bool * nat * nat list option * nat * (nat * tree) list

(** val tree_id : tree -> nat **)

let tree_id = function
| Leaf (id, _, _, _) -> id
| Inner (id, _, _, _, _, _) -> id

type trie = { t_root : tree option; t_innerpfx : bool; t_leafpfx : bool;
              t_leaves : byte list list option }

type ent = { e_key : key; e_nibs : nat list; e_keep : bool; e_idx : nat }

type subset = { s_ents : ent list; s_from : nat }

(** val neq_adj : byte list list -> bool list **)

let rec neq_adj = function
| [] -> []
| a :: r ->
  (match r with
   | [] -> []
   | b :: _ -> (negb (bytes_eqb a b)) :: (neq_adj r))

(** val to_keep : opts -> nat -> byte list list option -> bool list **)

let to_keep o n0 = function
| Some vs -> if o.o_dedup then true :: (neq_adj vs) else repeat true n0
| None -> repeat true n0

(** val mk_ents : nat -> key list -> bool list -> ent list **)

let rec mk_ents i keys keep =
  match keys with
  | [] -> []
  | k :: r ->
    let b = match keep with
            | [] -> true
            | b :: _ -> b in
    { e_key = k; e_nibs = (nibs k); e_keep = b; e_idx =
    i } :: (mk_ents (S i) r (tl keep))

type desc =
| DLeaf of byte list option * nat
| DInner of bool * nat * nat list option * nat list * subset list

(** val leaf_tail : opts -> ent -> nat -> byte list option **)

let leaf_tail o e from =
  if o.o_leaf
  then (match skipn (Nat.div from (S (S O))) e.e_key with
        | [] -> None
        | b :: l -> Some (b :: l))
  else None

(** val ent_label : bool -> nat -> ent -> nat **)

let ent_label big w e =
  label_at big e.e_nibs w

(** val split_kids : bool -> nat -> nat list -> ent list -> subset list **)

let rec split_kids big w labels es =
  match labels with
  | [] -> []
  | lb :: r ->
    let same = fun e -> Nat.eqb (ent_label big w e) lb in
    let es1 = drop_while (fun e -> negb (same e)) es in
    (match es1 with
     | [] ->
       { s_ents = []; s_from =
         (add w (label_width big lb)) } :: (split_kids big w r [])
     | e :: rest ->
       { s_ents = (e :: (take_while same rest)); s_from =
         (add w (label_width big lb)) } :: (split_kids big w r
                                             (drop_while same rest)))

(** val process_subset : opts -> bool -> subset -> (desc * bool) res **)

let process_subset o isbig s =
  match s.s_ents with
  | [] -> Err (EPanic (S O))
  | e0 :: l ->
    (match l with
     | [] -> Ok ((DLeaf ((leaf_tail o e0 s.s_from), e0.e_idx)), isbig)
     | _ :: _ ->
       let diffs = adj_lcps (map (fun e -> e.e_nibs) s.s_ents) in
       let ws = list_min (hd O diffs) diffs in
       let wb = even_down ws in
       let prefcnt =
         add (S O)
           (length (filter (fun d -> Nat.ltb d (add wb (S (S O)))) diffs))
       in
       let big = (&&) isbig (Nat.ltb big_threshold prefcnt) in
       let w = if big then wb else ws in
       if Nat.ltb w s.s_from
       then Err (EPanic (S (S O)))
       else let labels =
              dedup_adj
                (map (ent_label big w) (filter (fun e -> e.e_keep) s.s_ents))
            in
            let plen = sub w s.s_from in
            if (&&) (negb o.o_inner) (N.ltb max_step (N.of_nat plen))
            then Err EStepTooLong
            else let pfx =
                   if (&&) o.o_inner (Nat.ltb O plen)
                   then let f = even_down s.s_from in
                        Some (firstn (sub w f) (skipn f e0.e_nibs))
                   else None
                 in
                 let step = if o.o_inner then O else plen in
                 Ok ((DInner (big, step, pfx, labels,
                 (split_kids big w labels s.s_ents))), big))

(** val process_level :
    opts -> bool -> subset list -> (desc list * bool) res **)

let rec process_level o isbig = function
| [] -> Ok ([], isbig)
| s :: r ->
  bind (process_subset o isbig s) (fun pat ->
    let (d, b) = pat in
    bind (process_level o b r) (fun pat0 ->
      let (ds, b') = pat0 in Ok ((d :: ds), b')))

(** val kids_of : desc -> subset list **)

let kids_of = function
| DLeaf (_, _) -> []
| DInner (_, _, _, _, kids) -> kids

(** val leaf_idx_of : desc -> nat list **)

let leaf_idx_of = function
| DLeaf (_, i) -> i :: []
| DInner (_, _, _, _, _) -> []

(** val assemble :
    desc list -> nat -> nat -> nat -> tree list -> tree list **)

let rec assemble ds id cid lord forest =
  match ds with
  | [] -> []
  | d :: r ->
    (match d with
     | DLeaf (tail, eidx) ->
       (Leaf (id, lord, tail,
         eidx)) :: (assemble r (S id) cid (S lord) forest)
     | DInner (big, step, pfx, labels, kids) ->
       let n0 = length kids in
       (Inner (id, big, step, pfx, cid,
       (combine labels (firstn n0 forest)))) :: (assemble r (S id)
                                                  (add cid n0) lord
                                                  (skipn n0 forest)))

(** val build_levels :
    nat -> opts -> bool -> nat -> nat -> subset list -> (tree list * nat
    list) res **)

let rec build_levels fuel o isbig base lbase ss = match ss with
| [] -> Ok ([], [])
| _ :: _ ->
  (match fuel with
   | O -> Err EFuel
   | S f ->
     bind (process_level o isbig ss) (fun pat ->
       let (ds, b) = pat in
       let lidx = flat_map leaf_idx_of ds in
       let cbase = add base (length ss) in
       bind
         (build_levels f o b cbase (add lbase (length lidx))
           (flat_map kids_of ds)) (fun pat0 ->
         let (forest, lidx') = pat0 in
         Ok ((assemble ds base cbase lbase forest), (app lidx lidx')))))

(** val total_size : byte list list -> nat **)

let total_size l =
  sum_list (map length l)

(** val select_leaves :
    byte list list option -> nat list -> byte list list option **)

let select_leaves vals lidx =
  match vals with
  | Some vs ->
    let elts = map (fun i -> nth i vs []) lidx in
    if Nat.eqb (total_size elts) O then None else Some elts
  | None -> None

(** val max_nibs : key list -> nat **)

let max_nibs keys =
  fold_left (fun m k -> Nat.max m (mul (S (S O)) (length k))) keys O

(** val empty_trie : trie **)

let empty_trie =
  { t_root = None; t_innerpfx = false; t_leafpfx = false; t_leaves = None }

(** val build : opts -> key list -> byte list list option -> trie res **)

let build o keys vals =
  match keys with
  | [] -> Ok empty_trie
  | _ :: _ ->
    (match check_order keys with
     | Some i -> Err (EOutOfOrder i)
     | None ->
       let ents = mk_ents O keys (to_keep o (length keys) vals) in
       bind
         (build_levels (add (max_nibs keys) (S (S (S O)))) o true O O
           ({ s_ents = ents; s_from = O } :: [])) (fun pat ->
         let (forest, lidx) = pat in
         (match forest with
          | [] -> Err (EPanic (S (S (S O))))
          | r :: l ->
            (match l with
             | [] ->
               Ok { t_root = (Some r); t_innerpfx = o.o_inner; t_leafpfx =
                 o.o_leaf; t_leaves = (select_leaves vals lidx) }
             | _ :: _ -> Err (EPanic (S (S (S O))))))))

(** val advance :
    nat list -> nat -> nat -> nat -> nat list option -> nat option **)

let advance qn l i step = function
| Some p ->
  (match cmp_upto (skipn (even_down i) qn) p with
   | Eq ->
     let i1 = add (even_down i) (length p) in
     if Nat.ltb l i1 then None else Some i1
   | _ -> None)
| None -> let i1 = add i step in if Nat.ltb l i1 then None else Some i1

(** val descend :
    nat list -> nat -> tree -> nat -> ((tree * nat) * bool) option **)

let rec descend qn l t i =
  match t with
  | Leaf (_, _, _, _) -> Some ((t, i), true)
  | Inner (_, big, step, pfx, _, ch) ->
    (match advance qn l i step pfx with
     | Some i1 ->
       let lb = label_at big qn i1 in
       let rec go = function
       | [] -> None
       | p :: r ->
         let (x, c) = p in
         if Nat.eqb x lb
         then if Nat.eqb i1 l
              then Some ((c, i1), false)
              else descend qn l c (add i1 (wsize big))
         else go r
       in go ch
     | None -> None)

(** val sess_tail : tree -> bool -> byte list option **)

let sess_tail c = function
| true ->
  (match c with
   | Leaf (_, _, tail, _) -> tail
   | Inner (_, _, _, _, _, _) -> None)
| false -> None

(** val getid_node : trie -> key -> tree option **)

let getid_node t q =
  match t.t_root with
  | Some r ->
    let qn = nibs q in
    let l = length qn in
    (match descend qn l r O with
     | Some p ->
       let (p0, visited) = p in
       let (c, i) = p0 in
       if t.t_leafpfx
       then (match sess_tail c visited with
             | Some tail ->
               if Nat.eqb i l
               then None
               else if bytes_eqb tail (skipn (Nat.div i (S (S O))) q)
                    then Some c
                    else None
             | None -> if Nat.eqb i l then Some c else None)
       else Some c
     | None -> None)
  | None -> None

(** val getid : trie -> key -> nat option **)

let getid t q =
  option_map tree_id (getid_node t q)

type found =
| NotFound
| Found of byte list option

(** val leaf_value : trie -> tree -> byte list option res **)

let leaf_value t = function
| Leaf (_, ord, _, _) ->
  (match t.t_leaves with
   | Some ls ->
     (match nth_error ls ord with
      | Some v -> Ok (Some v)
      | None -> Err (EPanic (S (S (S (S (S (S (S (S (S (S (S O)))))))))))))
   | None -> Ok None)
| Inner (_, _, _, _, _, _) ->
  Err (EPanic (S (S (S (S (S (S (S (S (S (S O)))))))))))

(** val get : trie -> key -> found res **)

let get t q =
  match getid_node t q with
  | Some c -> bind (leaf_value t c) (fun v -> Ok (Found v))
  | None -> Ok NotFound

(** val or_else : 'a1 option -> 'a1 option -> 'a1 option **)

let or_else a b =
  match a with
  | Some _ -> a
  | None -> b

type adv3 =
| AEq of nat
| ALt
| AGt

(** val advance3 :
    nat list -> nat -> nat -> nat -> nat list option -> adv3 **)

let advance3 qn l i step = function
| Some p ->
  (match cmp_upto (skipn (even_down i) qn) p with
   | Eq -> AEq (add (even_down i) (length p))
   | Lt -> ALt
   | Gt -> AGt)
| None -> let i1 = add i step in if Nat.ltb l i1 then ALt else AEq i1

(** val search_down :
    nat list -> nat -> tree -> nat -> tree option -> tree option -> (tree
    option * ((tree * nat) * bool) option) * tree option **)

let rec search_down qn l t i lc rc =
  match t with
  | Leaf (_, _, _, _) -> ((lc, (Some ((t, i), true))), rc)
  | Inner (_, big, step, pfx, _, ch) ->
    (match advance3 qn l i step pfx with
     | AEq i1 ->
       let lb = label_at big qn i1 in
       let rec go ch0 prev =
         match ch0 with
         | [] -> (((or_else prev lc), None), rc)
         | p :: rest ->
           let (x, c) = p in
           if Nat.ltb x lb
           then go rest (Some c)
           else if Nat.eqb x lb
                then let lc' = or_else prev lc in
                     let rc' =
                       match rest with
                       | [] -> rc
                       | p0 :: _ -> let (_, c') = p0 in Some c'
                     in
                     if Nat.eqb i1 l
                     then ((lc', (Some ((c, i1), false))), rc')
                     else search_down qn l c (add i1 (wsize big)) lc' rc'
                else (((or_else prev lc), None), (Some c))
       in go ch None
     | ALt -> ((lc, None), (Some t))
     | AGt -> (((Some t), None), rc))

(** val leftmost : tree -> tree **)

let rec leftmost t = match t with
| Leaf (_, _, _, _) -> t
| Inner (_, _, _, _, _, ch) ->
  (match ch with
   | [] -> t
   | p :: _ -> let (_, c) = p in leftmost c)

(** val rightmost : tree -> tree **)

let rec rightmost t = match t with
| Leaf (_, _, _, _) -> t
| Inner (_, _, _, _, _, ch) ->
  let rec go = function
  | [] -> t
  | p :: r ->
    let (_, c) = p in (match r with
                       | [] -> rightmost c
                       | _ :: _ -> go r)
  in go ch

(** val searchid :
    trie -> key -> (tree option * tree option) * tree option **)

let searchid t q =
  match t.t_root with
  | Some r ->
    let qn = nibs q in
    let l = length qn in
    let (p, rc) = search_down qn l r O None None in
    let (lc, eq) = p in
    let (p0, rc0) =
      match eq with
      | Some p0 ->
        let (p1, visited) = p0 in
        let (c, i) = p1 in
        if Nat.leb i l
        then let cmp =
               if t.t_leafpfx
               then bytes_cmp (skipn (Nat.div i (S (S O))) q)
                      (match sess_tail c visited with
                       | Some t0 -> t0
                       | None -> [])
               else Eq
             in
             (match cmp with
              | Eq -> ((lc, (Some c)), rc)
              | Lt -> ((lc, None), (Some c))
              | Gt -> (((Some c), None), rc))
        else ((lc, (Some c)), rc)
      | None -> ((lc, None), rc)
    in
    let (lc0, eqn) = p0 in
    (((option_map rightmost lc0), eqn), (option_map leftmost rc0))
  | None -> ((None, None), None)

(** val opt_leaf_value :
    trie -> tree option -> byte list option option res **)

let opt_leaf_value t = function
| Some c0 -> bind (leaf_value t c0) (fun v -> Ok (Some v))
| None -> Ok None

(** val search :
    trie -> key -> ((byte list option option * byte list option
    option) * byte list option option) res **)

let search t q =
  let (p, r) = searchid t q in
  let (l, e) = p in
  bind (opt_leaf_value t l) (fun lv ->
    bind (opt_leaf_value t e) (fun ev ->
      bind (opt_leaf_value t r) (fun rv -> Ok ((lv, ev), rv))))

(** val rangeget : trie -> key -> found res **)

let rangeget t q =
  let (p, _) = searchid t q in
  let (l, e) = p in
  (match e with
   | Some c -> bind (leaf_value t c) (fun v -> Ok (Found v))
   | None ->
     (match l with
      | Some c -> bind (leaf_value t c) (fun v -> Ok (Found v))
      | None -> Ok NotFound))

type nview =
| VLeaf of nat * nat * byte list option
| VInner of nat * bool * nat * nat list option * nat * nat list

(** val node_views : tree -> nview list **)

let rec node_views = function
| Leaf (id, ord, tail, _) -> (VLeaf (id, ord, tail)) :: []
| Inner (id, big, step, pfx, fc, ch) ->
  (VInner (id, big, step, pfx, fc,
    (map fst ch))) :: (let rec go = function
                       | [] -> []
                       | p :: r -> let (_, c) = p in app (node_views c) (go r)
                       in go ch)
