
val negb : bool -> bool

type nat =
| O
| S of nat

val option_map : ('a1 -> 'a2) -> 'a1 option -> 'a2 option

val fst : ('a1 * 'a2) -> 'a1

val snd : ('a1 * 'a2) -> 'a2

val length : 'a1 list -> nat

val app : 'a1 list -> 'a1 list -> 'a1 list

type comparison =
| Eq
| Lt
| Gt

val add : nat -> nat -> nat

val mul : nat -> nat -> nat

val sub : nat -> nat -> nat

type byte =
| X00
| X01
| X02
| X03
| X04
| X05
| X06
| X07
| X08
| X09
| X0a
| X0b
| X0c
| X0d
| X0e
| X0f
| X10
| X11
| X12
| X13
| X14
| X15
| X16
| X17
| X18
| X19
| X1a
| X1b
| X1c
| X1d
| X1e
| X1f
| X20
| X21
| X22
| X23
| X24
| X25
| X26
| X27
| X28
| X29
| X2a
| X2b
| X2c
| X2d
| X2e
| X2f
| X30
| X31
| X32
| X33
| X34
| X35
| X36
| X37
| X38
| X39
| X3a
| X3b
| X3c
| X3d
| X3e
| X3f
| X40
| X41
| X42
| X43
| X44
| X45
| X46
| X47
| X48
| X49
| X4a
| X4b
| X4c
| X4d
| X4e
| X4f
| X50
| X51
| X52
| X53
| X54
| X55
| X56
| X57
| X58
| X59
| X5a
| X5b
| X5c
| X5d
| X5e
| X5f
| X60
| X61
| X62
| X63
| X64
| X65
| X66
| X67
| X68
| X69
| X6a
| X6b
| X6c
| X6d
| X6e
| X6f
| X70
| X71
| X72
| X73
| X74
| X75
| X76
| X77
| X78
| X79
| X7a
| X7b
| X7c
| X7d
| X7e
| X7f
| X80
| X81
| X82
| X83
| X84
| X85
| X86
| X87
| X88
| X89
| X8a
| X8b
| X8c
| X8d
| X8e
| X8f
| X90
| X91
| X92
| X93
| X94
| X95
| X96
| X97
| X98
| X99
| X9a
| X9b
| X9c
| X9d
| X9e
| X9f
| Xa0
| Xa1
| Xa2
| Xa3
| Xa4
| Xa5
| Xa6
| Xa7
| Xa8
| Xa9
| Xaa
| Xab
| Xac
| Xad
| Xae
| Xaf
| Xb0
| Xb1
| Xb2
| Xb3
| Xb4
| Xb5
| Xb6
| Xb7
| Xb8
| Xb9
| Xba
| Xbb
| Xbc
| Xbd
| Xbe
| Xbf
| Xc0
| Xc1
| Xc2
| Xc3
| Xc4
| Xc5
| Xc6
| Xc7
| Xc8
| Xc9
| Xca
| Xcb
| Xcc
| Xcd
| Xce
| Xcf
| Xd0
| Xd1
| Xd2
| Xd3
| Xd4
| Xd5
| Xd6
| Xd7
| Xd8
| Xd9
| Xda
| Xdb
| Xdc
| Xdd
| Xde
| Xdf
| Xe0
| Xe1
| Xe2
| Xe3
| Xe4
| Xe5
| Xe6
| Xe7
| Xe8
| Xe9
| Xea
| Xeb
| Xec
| Xed
| Xee
| Xef
| Xf0
| Xf1
| Xf2
| Xf3
| Xf4
| Xf5
| Xf6
| Xf7
| Xf8
| Xf9
| Xfa
| Xfb
| Xfc
| Xfd
| Xfe
| Xff

val to_bits :
  byte -> bool * (bool * (bool * (bool * (bool * (bool * (bool * bool))))))

val eqb : bool -> bool -> bool

module Nat :
 sig
  val sub : nat -> nat -> nat

  val eqb : nat -> nat -> bool

  val leb : nat -> nat -> bool

  val ltb : nat -> nat -> bool

  val compare : nat -> nat -> comparison

  val max : nat -> nat -> nat

  val min : nat -> nat -> nat

  val divmod : nat -> nat -> nat -> nat -> nat * nat

  val div : nat -> nat -> nat

  val modulo : nat -> nat -> nat
 end

val hd : 'a1 -> 'a1 list -> 'a1

val tl : 'a1 list -> 'a1 list

val nth : nat -> 'a1 list -> 'a1 -> 'a1

val nth_error : 'a1 list -> nat -> 'a1 option

val map : ('a1 -> 'a2) -> 'a1 list -> 'a2 list

val flat_map : ('a1 -> 'a2 list) -> 'a1 list -> 'a2 list

val fold_left : ('a1 -> 'a2 -> 'a1) -> 'a2 list -> 'a1 -> 'a1

val filter : ('a1 -> bool) -> 'a1 list -> 'a1 list

val combine : 'a1 list -> 'a2 list -> ('a1 * 'a2) list

val firstn : nat -> 'a1 list -> 'a1 list

val skipn : nat -> 'a1 list -> 'a1 list

val repeat : 'a1 -> nat -> 'a1 list

type positive =
| XI of positive
| XO of positive
| XH

type n =
| N0
| Npos of positive

module Pos :
 sig
  val succ : positive -> positive

  val compare_cont : comparison -> positive -> positive -> comparison

  val compare : positive -> positive -> comparison

  val iter_op : ('a1 -> 'a1 -> 'a1) -> positive -> 'a1 -> 'a1

  val to_nat : positive -> nat

  val of_succ_nat : nat -> positive
 end

module N :
 sig
  val compare : n -> n -> comparison

  val ltb : n -> n -> bool

  val to_nat : n -> nat

  val of_nat : nat -> n
 end

val eqb0 : byte -> byte -> bool

val to_nat0 : byte -> nat

val to_N : byte -> n

val of_N : n -> byte option

type err =
| EOutOfOrder of nat
| EStepTooLong
| EPanic of nat
| EFuel

type 'a res =
| Ok of 'a
| Err of err

val bind : 'a1 res -> ('a1 -> 'a2 res) -> 'a2 res

val take_while : ('a1 -> bool) -> 'a1 list -> 'a1 list

val drop_while : ('a1 -> bool) -> 'a1 list -> 'a1 list

val list_eqb : ('a1 -> 'a1 -> bool) -> 'a1 list -> 'a1 list -> bool

val bytes_eqb : byte list -> byte list -> bool

val sum_list : nat list -> nat

val dedup_adj : nat list -> nat list

type key = byte list

val nibs_of_byte : byte -> nat list

val nibs : key -> nat list

val lex_cmp : nat list -> nat list -> comparison

val bytes_cmp : key -> key -> comparison

val bytes_ltb : key -> key -> bool

val lcp : nat list -> nat list -> nat

val adj_lcps : nat list list -> nat list

val list_min : nat -> nat list -> nat

val even_down : nat -> nat

val label_at : bool -> nat list -> nat -> nat

val wsize : bool -> nat

val label_width : bool -> nat -> nat

val cmp_upto : nat list -> nat list -> comparison

val check_order_from : nat -> key list -> nat option

val check_order : key list -> nat option

type raw_opt = { r_dedup : bool option; r_inner : bool option;
                 r_leaf : bool option; r_complete : bool option }

type opts = { o_dedup : bool; o_inner : bool; o_leaf : bool }

val normalize : raw_opt -> opts

val big_threshold : nat

val max_step : n

type tree =
| Leaf of nat * nat * byte list option * nat
| Inner of nat * bool * nat * nat list option * nat * (nat * tree) list

val tree_id : tree -> nat

type trie = { t_root : tree option; t_innerpfx : bool; t_leafpfx : bool;
              t_leaves : byte list list option }

type ent = { e_key : key; e_nibs : nat list; e_keep : bool; e_idx : nat }

type subset = { s_ents : ent list; s_from : nat }

val neq_adj : byte list list -> bool list

val to_keep : opts -> nat -> byte list list option -> bool list

val mk_ents : nat -> key list -> bool list -> ent list

type desc =
| DLeaf of byte list option * nat
| DInner of bool * nat * nat list option * nat list * subset list

val leaf_tail : opts -> ent -> nat -> byte list option

val ent_label : bool -> nat -> ent -> nat

val split_kids : bool -> nat -> nat list -> ent list -> subset list

val process_subset : opts -> bool -> subset -> (desc * bool) res

val process_level : opts -> bool -> subset list -> (desc list * bool) res

val kids_of : desc -> subset list

val leaf_idx_of : desc -> nat list

val assemble : desc list -> nat -> nat -> nat -> tree list -> tree list

val build_levels :
  nat -> opts -> bool -> nat -> nat -> subset list -> (tree list * nat list)
  res

val total_size : byte list list -> nat

val select_leaves : byte list list option -> nat list -> byte list list option

val max_nibs : key list -> nat

val empty_trie : trie

val build : opts -> key list -> byte list list option -> trie res

val advance : nat list -> nat -> nat -> nat -> nat list option -> nat option

val descend : nat list -> nat -> tree -> nat -> ((tree * nat) * bool) option

val sess_tail : tree -> bool -> byte list option

val getid_node : trie -> key -> tree option

val getid : trie -> key -> nat option

type found =
| NotFound
| Found of byte list option

val leaf_value : trie -> tree -> byte list option res

val get : trie -> key -> found res

val or_else : 'a1 option -> 'a1 option -> 'a1 option

type adv3 =
| AEq of nat
| ALt
| AGt

val advance3 : nat list -> nat -> nat -> nat -> nat list option -> adv3

val search_down :
  nat list -> nat -> tree -> nat -> tree option -> tree option -> (tree
  option * ((tree * nat) * bool) option) * tree option

val leftmost : tree -> tree

val rightmost : tree -> tree

val searchid : trie -> key -> (tree option * tree option) * tree option

val opt_leaf_value : trie -> tree option -> byte list option option res

val search :
  trie -> key -> ((byte list option option * byte list option option) * byte
  list option option) res

val rangeget : trie -> key -> found res

type nview =
| VLeaf of nat * nat * byte list option
| VInner of nat * bool * nat * nat list option * nat * nat list

val node_views : tree -> nview list
